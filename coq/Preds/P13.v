(** C13 - path operations compose like a path algebra: executable statement on observations
    (profile 2: raw and decoded faces). *)
From Yarl Require Import Preds.Obs Model.Path.

Definition vlist (v : val) : option (list val) := match v with WList l => Some l | _ => None end.
Definition vstr_list (v : val) : option (list str) :=
  match v with
  | WList l => fold_right (fun x acc => match x, acc with WStr s, Some r => Some (s :: r) | _, _ => None end) (Some []) l
  | _ => None
  end.

Definition recompose (ps : list str) : str :=
  match ps with
  | [47] :: r => 47 :: join [47] r
  | _ => join [47] ps
  end.

Definition last_str (l : list str) : str := match last_opt l with Some x => x | None => [] end.
Definition strip_trailing_empty (l : list str) : list str :=
  match l with
  | [_] => l
  | _ => match last_opt l with Some [] => removelast l | _ => l end
  end.
Fixpoint strs_eqb (a b : list str) : bool :=
  match a, b with
  | [], [] => true
  | x :: r, y :: s => str_eqb x y && strs_eqb r s
  | _, _ => false
  end.
Definition is_suffix_of (t s : str) : bool := endswith t s.

(** kind 0 - one URL: raw_parts re-compose to raw_path, name is the last part, suffix and
    suffixes are tails of the name (raw and decoded faces) *)
Definition c13_static (o : val) : bool :=
  match vstr_list (nthv i_raw_parts o), nthv i_raw_path o, nthv i_raw_name o, nthv i_raw_suffix o,
        vstr_list (nthv i_raw_suffixes o), nthv i_absolute o with
  | Some ps, WStr rp, WStr nm, WStr sfx, Some sfxs, WBool abs =>
      str_eqb (recompose ps) rp
      && str_eqb nm (match ps with [[47]] => [] | _ => last_str ps end)
      && is_suffix_of sfx nm && is_suffix_of (concat sfxs) nm
      && (match sfxs with [] => true | _ => str_eqb (last_str sfxs) sfx end)
      && match vstr_list (nthv i_parts o), nthv i_name o, nthv i_suffix o, vstr_list (nthv i_suffixes o) with
         | Some dps, WStr dnm, WStr dsfx, Some dsfxs =>
             Nat.eqb (length dps) (length ps)
             && str_eqb dnm (match ps with [[47]] => [] | _ => last_str dps end)
             && is_suffix_of dsfx dnm && is_suffix_of (concat dsfxs) dnm
         | _, _, _, _ => false
         end
  | _, _, _, _, _, _ => false
  end.

Definition obs_eqb (a b : val) : bool := val_eqb a b.
Definition no_special (s : str) : bool :=     (* a plain segment: no '/', not a dot segment, no surrogate, not empty *)
  negb (mem 47 s) && negb (is_dotseg s) && negb (str_eqb s [])
  && forallb (fun c => negb ((55296 <=? c) && (c <=? 57343))) s.

(** kind 1 - u / s: args s, obs u, obs (u / s), obs u.joinpath(s), obs (u / s).parent *)
Definition c13_div (args : list val) : bool :=
  match args with
  | [WStr s; u; d; j; dp] =>
      match d with
      | WList _ =>
          obs_eqb d j
          && (if no_special s then
                match nthv i_name d with WStr n => str_eqb n s | _ => false end
                && match vstr_list (nthv i_parts dp), vstr_list (nthv i_parts u) with
                   | Some pp, Some up => strs_eqb pp (strip_trailing_empty up)
                   | _, _ => false end
              else true)
      | _ => obs_eqb d j       (* both raise alike *)
      end
  | _ => false
  end.

(** kind 2 - joinpath(a, b) = joinpath(a).joinpath(b) = u / "a/b" (a, b plain segments) *)
Definition c13_assoc (args : list val) : bool :=
  match args with
  | [WStr a; WStr b; x; y; z] =>
      if no_special a && no_special b then obs_eqb x y && obs_eqb y z else true
  | _ => false
  end.

(** kind 3 - with_name(n): name is n and the parent is the parent of the original.
    args n, obs u, obs u.with_name(n), obs u.with_name(n).parent, obs u.parent *)
Definition c13_with_name (args : list val) : bool :=
  match args with
  | [WStr n; u; w; wp; up] =>
      match w with
      | WList _ =>
          if no_special n then
            match nthv i_name w with WStr x => str_eqb x n | _ => false end
            && (obs_eqb wp up
                (* a URL whose path is empty or "/" has itself as parent: there the new
                   segment's parent is that root *)
                || match nthv i_raw_path u with
                   | WStr [] | WStr [47] => val_eqb (nthv i_raw_path wp) (nthv i_raw_path u)
                                            || match nthv i_raw_path wp with WStr [47] => true | WStr [] => true | _ => false end
                   | _ => false end)
          else true
      | _ => true
      end
  | _ => false
  end.

(** kind 4 - with_suffix(x): only the suffix is replaced; the stem of the raw name and all
    other raw segments are byte-for-byte what they were.  args x, obs u, obs u.with_suffix(x) *)
Definition c13_with_suffix (args : list val) : bool :=
  match args with
  | [WStr x; u; w] =>
      match w with
      | WList _ =>
          match vstr_list (nthv i_raw_parts u), vstr_list (nthv i_raw_parts w),
                nthv i_raw_name u, nthv i_raw_suffix u, nthv i_raw_name w, nthv i_name u, nthv i_suffix u, nthv i_name w with
          | Some ups, Some wps, WStr unm, WStr usfx, WStr wnm, WStr dn, WStr ds, WStr wdn =>
              let stem := firstn (length unm - length usfx) unm in
              let dstem := firstn (length dn - length ds) dn in
              strs_eqb (removelast wps) (removelast ups)
              && startswith stem wnm
              && (if forallb (fun c => (c <? 128) && negb (c =? 37)) x && negb (mem 47 x)
                  then str_eqb wdn (dstem ++ x) else true)
          | _, _, _, _, _, _, _, _ => false
          end
      | _ => true
      end
  | _ => false
  end.

Definition c13_pred (args : list val) : bool :=
  match args with
  | WNat 0 :: [o] => match o with WList _ => c13_static o | _ => true end
  | WNat 1 :: r => c13_div r
  | WNat 2 :: r => c13_assoc r
  | WNat 3 :: r => c13_with_name r
  | WNat 4 :: r => c13_with_suffix r
  | WNat 5 :: [a; b] =>      (* joinpath(s1, ..., sn) against joinpath(s1)...joinpath(sn): equal observations (or both fail) *)
      match a, b with
      | WList _, WList _ => val_eqb a b
      | WErr _, WErr _ => true
      | _, _ => false
      end
  | _ => false
  end.

(** known finding F28: without an authority the root path "/" has parts ('/', '') (with an
    authority ('/',)), so the parent of "/s" shows a trailing empty part *)
Definition kf_f28 (args : list val) : bool :=
  match args with
  | [WNat 1; WStr s; u; d; j; dp] =>
      match nthv i_netloc dp, nthv i_raw_path dp, vstr_list (nthv i_parts dp), vstr_list (nthv i_parts u) with
      | WStr [], WStr [47], Some pp, Some up => strs_eqb (strip_trailing_empty pp) (strip_trailing_empty up)
      | _, _, _, _ => false
      end
  | _ => false
  end.
