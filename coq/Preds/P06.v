(** C06 - decoded views are faithful and supplied values read back: executable statement
    on observations (profile 2), with Spec/Decode.v as the meaning of "UTF-8
    percent-decoding with malformed escapes kept verbatim". *)
From Yarl Require Import Preds.Obs Spec.Decode Model.Path Model.Query.

Definition dec_eq (fl : flavour) (raw decoded : val) : bool :=
  match raw, decoded with
  | WStr r, WStr d => str_eqb (pct_decode fl r) d
  | WNone, WNone => true
  | WErr ValueError, WErr ValueError => true     (* encoded=True garbage: the authority does not parse *)
  | _, _ => false
  end.

Fixpoint dec_list_eq (fl : flavour) (raws decs : list val) : bool :=
  match raws, decs with
  | [], [] => true
  | r :: rs, d :: ds => dec_eq fl r d && dec_list_eq fl rs ds
  | _, _ => false
  end.
Definition dec_vlist_eq (fl : flavour) (raw decoded : val) : bool :=
  match raw, decoded with WList r, WList d => dec_list_eq fl r d | _, _ => false end.

(** the pairs a raw query denotes: chunks between '&', split at the first '=', '+' is a space *)
Definition spec_query_pairs (q : str) : list (str * str) :=
  flat_map (fun nv => match nv with
                      | [] => []
                      | _ => let '(n, v) := split_first 61 nv in
                             [(pct_decode fl_plain (plus_to_space n), pct_decode fl_plain (plus_to_space v))]
                      end) (match q with [] => [] | _ => split 38 q end).

Definition vpairs_eq (ps : list (str * str)) (v : val) : bool :=
  match v with
  | WList l =>
      (fix go (a : list (str * str)) (b : list val) : bool :=
         match a, b with
         | [], [] => true
         | (k, x) :: r, WList [WStr k'; WStr x'] :: s => str_eqb k k' && str_eqb x x' && go r s
         | _, _ => false
         end) ps l
  | _ => false
  end.

(** kind 0: every decoded accessor is the decoding of the raw component *)
Definition c06_views (o : val) : bool :=
  dec_eq fl_plain (nthv i_raw_user o) (nthv i_user o)
  && dec_eq fl_plain (nthv i_raw_password o) (nthv i_password o)
  && dec_eq fl_plain (nthv i_raw_path o) (nthv i_path o)
  && dec_eq fl_path_safe (nthv i_raw_path o) (nthv i_path_safe o)
  && dec_vlist_eq fl_plain (nthv i_raw_parts o) (nthv i_parts o)
  && dec_eq fl_plain (nthv i_raw_name o) (nthv i_name o)
  && dec_eq fl_plain (nthv i_raw_suffix o) (nthv i_suffix o)
  && dec_vlist_eq fl_plain (nthv i_raw_suffixes o) (nthv i_suffixes o)
  && dec_eq fl_query_string (nthv i_query o) (nthv i_query_string o)
  && dec_eq fl_plain (nthv i_fragment o) (nthv i_dfragment o).

Definition c06_query (o : val) : bool :=
  match nthv i_query o with
  | WStr q => vpairs_eq (spec_query_pairs q) (nthv i_query_pairs o)
  | _ => false
  end.

Definition has_sur (s : str) : bool := existsb is_sur s.
Definition has_dotseg (s : str) : bool := existsb is_dotseg (split 47 s).

(** kind 1: a supplied decoded text reads back.  what: 0 user, 1 password, 2 path (rooted),
    3 name (with_name, /, joinpath: one segment), 4 fragment, 5 query pair (key, value) *)
Definition c06_readback (what : N) (t t2 : str) (o : val) : bool :=
  if has_sur t || has_sur t2 then true else
  match o with
  | WList _ =>
      match what with
      | 0 => match nthv i_user o with WStr x => str_eqb x t | WNone => str_eqb t [] | _ => false end
      | 1 => match nthv i_password o with WStr x => str_eqb x t | _ => false end
      | 2 => if has_dotseg t then true
             else match nthv i_path o with WStr x => str_eqb x t | _ => false end
      | 3 => if mem 47 t || is_dotseg t || str_eqb t [] then true
             else match nthv i_name o with WStr x => str_eqb x t | _ => false end
      | 4 => match nthv i_dfragment o with WStr x => str_eqb x t | _ => false end
      | 5 => vpairs_eq [(t, t2)] (nthv i_query_pairs o)
      | _ => false
      end
  | _ => true      (* the call rejected the text (e.g. '/' in a name): nothing to read back *)
  end.

Definition c06_pred (args : list val) : bool :=
  match args with
  | [WNat 0; o] => match o with WList _ => c06_views o | _ => true end
  | [WNat 1; o] => match o with WList _ => c06_query o | _ => true end
  | [WNat 2; WNat what; WStr t; WStr t2; o] => c06_readback what t t2 o
  | _ => false
  end.

(** known finding F18: parse_qsl decodes with errors="replace": an undecodable escape in a
    query reads as U+FFFD instead of being kept verbatim *)
Definition kf_f18 (args : list val) : bool :=
  match args with
  | [WNat 1; o] =>
      match nthv i_query_pairs o with
      | WList l => existsb (fun p => match p with
                                     | WList [WStr k; WStr v] => mem 65533 k || mem 65533 v
                                     | _ => false end) l
      | _ => false
      end
  | _ => false
  end.
