(** Executable statement of C15 on one case; the same definition is the conclusion
    of the theorems in Properties/C15.v and, extracted, the verdict applied to the
    implementation's outputs. *)
From Yarl Require Import Base.PyStr Model.Path Spec.Rds.

Definition no_dot_segments (p : str) : bool :=
  forallb (fun s => negb (is_dotseg s)) (split 47 p).

(** [out] is what the implementation returned for normalize_path(path), path rooted *)
Definition c15_np_pred (path out : str) : bool :=
  match path with
  | 47 :: _ =>
      match remove_dot_segments path with
      | Some r => str_eqb r out
      | None => false
      end && no_dot_segments out
  | _ => true
  end.
