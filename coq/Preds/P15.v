(** Executable statement of C15 on one case; the same definition is the conclusion
    of the theorems in Properties/C15.v and, extracted, the verdict applied to the
    implementation's outputs. *)
From Yarl Require Import Base.PyStr Model.Path Spec.Rds.

Definition no_dot_segments (p : str) : bool :=
  forallb (fun s => negb (is_dotseg s)) (split 47 p).

(** [out] is what the implementation returned for normalize_path(path), path rooted *)
Definition c15_np_pred (path out : str) : bool :=
  match path with
  | 47 :: _ =>
      match remove_dot_segments path with
      | Some r => str_eqb r out
      | None => false
      end && no_dot_segments out
  | _ => true
  end.

(** ---- URL level: however the path was produced ---- *)
From Yarl Require Import Preds.Obs Model.Quoter Model.Quoters Spec.QuoteSpec.

Definition rds_total (p : str) : str := match remove_dot_segments p with Some r => r | None => p end.
Definition root (p : str) : str := match p with 47 :: _ => p | _ => 47 :: p end.
Definition q_req (p : str) : str := qspec (eff_of PATH_REQUOTER) p.     (* constructor: "%2E" is a dot *)
Definition q_plain (p : str) : str := qspec (eff_of PATH_QUOTER) p.     (* build / modifiers: '%' is data *)

(** how several arguments of joinpath are strung together: every argument but the last
    loses one trailing slash, and contributes nothing when empty *)
Fixpoint prep_segments (l : list str) : list str :=
  match l with
  | [] => []
  | [x] => [x]
  | x :: r => let x' := if endswith [47] x then removelast x else x in
              (if str_eqb x' [] then [] else [x']) ++ prep_segments r
  end.

Definition obs_path_is (o : val) (expected : str) : bool :=
  match nthv i_raw_path o with WStr p => str_eqb p expected | _ => false end.
Definition obs_has_authority (o : val) : bool :=
  match nthv i_netloc o with WStr (_ :: _) => true | _ => false end.

(** kind 0: URL(prefix ++ path): args path, observation
    kind 1: build(path=) / with_path(path): args path, observation
    kind 2: u / s and u.joinpath(segments): args raw path of u, list of segment texts, observation
    Under an authority the stored path is remove_dot_segments of the rooted, canonicalised
    path that was supplied or merged and has no dot segment; without an authority dot
    segments are kept verbatim. *)
Definition c15_url_pred (args : list val) : bool :=
  match args with
  | [WNat 0; WStr p; o] =>
      match o with
      | WList _ =>
          if obs_has_authority o
          then (match p with
                | [] => obs_path_is o [47]
                | _ => obs_path_is o (rds_total (root (q_req p)))
                end)
               && match nthv i_raw_path o with WStr r => no_dot_segments r | _ => false end
          else obs_path_is o (q_req p)
      | _ => true
      end
  | [WNat 1; WStr p; o] =>
      match o with
      | WList _ =>
          if obs_has_authority o
          then (match p with
                | [] => obs_path_is o [47]
                | _ => obs_path_is o (rds_total (root (q_plain p)))
                end)
               && match nthv i_raw_path o with WStr r => no_dot_segments r | _ => false end
          else match p with
               | [] => obs_path_is o []
               | _ => obs_path_is o (root (q_plain p))
               end
      | _ => true
      end
  | [WNat 3; o] =>
      (* however produced (with_name, with_suffix, parent, any operation sequence): under an
         authority the stored path has no dot segment *)
      match o with
      | WList _ =>
          if obs_has_authority o
          then match nthv i_raw_path o with WStr r => no_dot_segments r | _ => false end
          else true
      | _ => true
      end
  | [WNat 2; WStr base; WList segs; o] =>
      match o with
      | WList _ =>
          let texts := prep_segments (flat_map (fun v => match v with WStr s => [q_plain s] | _ => [] end) segs) in
          let b := if endswith [47] base then removelast base else base in
          let merged := b ++ flat_map (fun s => 47 :: s) texts in
          if obs_has_authority o
          then obs_path_is o (rds_total (root merged))
               && match nthv i_raw_path o with WStr r => no_dot_segments r | _ => false end
          else obs_path_is o merged || obs_path_is o (match merged with 47 :: r => r | _ => merged end)
      | _ => true
      end
  | _ => false
  end.

(** known finding F23: in / and joinpath a ".." at the root pops the root marker, so a
    following empty segment takes its place ("..//a" -> "/a" where 5.2.4 gives "//a") *)
Definition kf_f23 (args : list val) : bool :=
  match args with
  | [WNat 1; WStr p; o] =>
      (* with_path(relative text): dot segments are removed before the text is rooted *)
      negb (startswith [47] p) && existsb is_dotseg (split 47 p) && existsb (fun seg => str_eqb seg []) (removelast (split 47 p))
  | [WNat 2; WStr base; WList segs; o] =>
      existsb (fun v => match v with
                        | WStr s => existsb (fun seg => str_eqb seg []) (removelast (split 47 s)) && existsb is_dotdot (split 47 s)
                        | _ => false end) segs
      || (existsb (fun v => match v with WStr s => existsb is_dotdot (split 47 s) | _ => false end) segs
          && existsb (fun v => match v with WStr [] => true | _ => false end) segs)
  | _ => false
  end.
