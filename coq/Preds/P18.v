(** C18 - human_repr() is readable and round-trips: executable statement. *)
From Yarl Require Import Preds.Obs Spec.Decode Model.Host.

(** URL(u.human_repr()) == u : the five compared parts (path normalised as __eq__ does) *)
Definition eq_parts (a b : val) : bool :=
  val_eqb (nthv i_scheme a) (nthv i_scheme b) && val_eqb (nthv i_netloc a) (nthv i_netloc b)
  && val_eqb (nthv i_raw_path a) (nthv i_raw_path b)
  && val_eqb (nthv i_query a) (nthv i_query b) && val_eqb (nthv i_fragment a) (nthv i_fragment b).

(** readability: no printable non-ASCII character is shown as an escape, and the only ASCII
    characters shown as escapes are '%', the delimiters of some component and
    non-printable ones *)
Definition may_be_escaped (c : cp) : bool :=
  negb (py_isprintable c)
  || (c <? 128) && mem c [37; 35; 47; 58; 63; 64; 91; 93; 38; 43; 59; 61].     (* % # / : ? @ [ ] & + ; = *)

Definition readable (h : str) : bool :=
  forallb (fun p => match p with PDec c => may_be_escaped c | _ => true end) (decode_pieces (tokenize h)).

(** args: observation of u (profile 2), observation of URL(u.human_repr()) *)
Definition c18_pred (args : list val) : bool :=
  match args with
  | [o; o2] =>
      match o, nthv i_human o with
      | WList _, WStr h =>
          readable h && match o2 with WList _ => eq_parts o o2 | _ => false end
      | WList _, _ => false
      | _, _ => true
      end
  | _ => false
  end.

(** known finding F13: user or password with a non-ASCII character: the re-parse runs the
    NFKC screen on the decoded authority and may reject it *)
Definition kf_f13 (args : list val) : bool :=
  match args with
  | [o; WErr ValueError] =>
      let na (v : val) := match v with WStr s => negb (isascii s) | _ => false end in
      na (nthv i_user o) || na (nthv i_password o)
  | _ => false
  end.
