"""Suites shared by several property modules."""
import core
import gens
from proto import dec, enc


def is_autoenc(prog):
    for ins in prog:
        if ins[0] == "push":
            c = ins[1]
            if c[0] == "enc" or (c[0] == "build" and c[-1]):
                return False
        elif ins[0] == "op":
            if ins[1] == "with_path" and ins[3]:
                return False
            if ins[1] == "joinpath" and ins[3]:
                return False
    return True


def standard_programs(ctx, n_urls, n_progs, maxops=3):
    rng = ctx.rng
    progs = [[["push", ["url", s]]] for s in gens.structured_urls(rng, n_urls)]
    progs += gens.random_programs(rng, n_progs, maxops=maxops)
    return progs


def touched(prog):
    """the same program with every intermediate value used (hashed, printed, compared with
    itself, all accessors read) before the next instruction works on it; the pure model
    ignores ["touch"], so any visible effect is a dependence on history"""
    out = []
    for i, ins in enumerate(prog):
        out.append(ins)
        if i + 1 < len(prog) and ins[0] != "touch":
            out.append(["touch"])
    return out


def touch_invariance(ctx, name, progs, limit):
    """each multi-step program with and without the touches: equal, same hash, not ordered,
    and observed identically (implementation against itself, and against the model)"""
    multi = [p for p in progs if len(p) > 1][:limit]
    if not multi:
        return
    tp = [touched(p) for p in multi]
    cmps = core.check_suite(ctx, name + "-compare", [("compare", [t, p]) for t, p in zip(tp, multi)], split=True)
    o1 = observe(ctx, name + "-plain", multi)
    o2 = observe(ctx, name + "-touched", tp)
    for k in backends(cmps):
        for n, p in enumerate(multi):
            c = cmps[k][n]
            if c.startswith("[") and c != "[ T F T F T T ]":
                ctx.violation(kind="predicate-failure", suite=name, backend=k,
                              predicate="a value derived from a used (hashed/printed/read) URL equals, and hashes like, the one derived from an unused URL",
                              program=tp[n], impl=c)
            elif o1[k][n] != o2[k][n]:
                ctx.violation(kind="predicate-failure", suite=name, backend=k,
                              predicate="observation of a derived URL does not depend on whether the intermediate URLs were used",
                              program=tp[n], impl=o2[k][n][:600], plain=o1[k][n][:600])


DERIVE_OPS = [["with_fragment", "z"], ["with_query", "a=1"], ["with_query", ["seq", ["k", "v"]]], ["update_query", ["seq", ["k", "v"], ["a", "9"]]],
              ["update_query", ["map", ["k", "v"]]], ["update_query", "k=v&a=9"], ["extend_query", ["seq", ["k", "v"]]], ["extend_query", ["map", ["a", "2"]]],
              ["without_query_params", ["a"]], ["with_path", "/zz", False, False, False], ["with_name", "n.x", False, False], ["with_suffix", ".s", False, False],
              ["div", "seg"], ["joinpath", ["a", "b"], False], ["parent"], ["origin"], ["relative"], ["with_scheme", "https"], ["with_host", "other.example"],
              ["with_port", 8081], ["with_user", "w"], ["with_password", "pw"], ["pickle"]]


def source_invariance(ctx, name, progs, limit, ops=None):
    """every program P against P followed by a derivation from its result that is thrown away: the source URL must be
    observed exactly as before (a URL never changes after creation; no argument or receiver is altered)"""
    ops = ops or DERIVE_OPS
    base = [p for p in progs if p][:limit]
    if not base:
        return
    rng = ctx.rng
    dp = [p + [["derive"] + rng.choice(ops)] + ([["derive"] + rng.choice(ops)] if rng.random() < 0.3 else []) for p in base]
    o1 = observe(ctx, name + "-plain", base)
    o2 = observe(ctx, name + "-after-derivation", dp)
    for k in backends(o1):
        for n, p in enumerate(base):
            if o1[k][n] != o2[k][n]:
                ctx.violation(kind="predicate-failure", suite=name, backend=k,
                              predicate="a URL is observed identically before and after another URL was derived from it",
                              program=dp[n], impl=o2[k][n][:600], plain=o1[k][n][:600])


SELF_TEXTS = ["%FF", "%C3", "%E2%82", "%ED%A0%80", "100%25", "a%20b", "%D1%84", "%25FF", "%41", "%2F", "x%zz", "%", "a+b", "%2B", "~", "%7E", "%7e"]


def reapply_cases(base, texts):
    """(component, text, program): the modifier is given a text the RECEIVER already holds - as its decoded value
    (the modifier applied twice) or, verbatim, as its stored raw text (encoded=True receiver): the outcome must be
    that of the same call on any other receiver"""
    out = []
    for t in texts:
        emb = bool(t) and all(33 <= ord(c) < 127 and c not in "/?#@:[]\\" for c in t)
        for comp, name in (("user", "with_user"), ("password", "with_password"), ("fragment", "with_fragment")):
            out.append((comp, t, base + [["op", name, t], ["touch"], ["op", name, t]]))
            if emb:
                raw = {"user": f"http://{t}:p@h/a/b?q=1#f", "password": f"http://u:{t}@h/a/b?q=1#f", "fragment": f"http://u:p@h/a/b?q=1#{t}"}[comp]
                out.append((comp, t, [["push", ["enc", raw]], ["touch"], ["op", name, t]]))
        out.append(("name", t, base + [["op", "with_name", t, False, False], ["touch"], ["op", "with_name", t, False, False]]))
        if emb:
            out.append(("name", t, [["push", ["enc", f"http://h/a/{t}"]], ["touch"], ["op", "with_name", t, False, False]]))
            out.append(("path", "/" + t, [["push", ["enc", f"http://h/{t}"]], ["touch"], ["op", "with_path", "/" + t, False, False, False]]))
            out.append(("query", t, [["push", ["enc", f"http://h/p?{t}"]], ["touch"], ["op", "with_query", t]]))
    return out


def observe(ctx, name, progs, profile=2, **kw):
    reqs = [("observe", [profile, p]) for p in progs]
    return core.check_suite(ctx, name, reqs, split=True,
                            nontrivial=kw.pop("nontrivial", lambda rs: {repr(a) for _, a in rs}), **kw)


def backends(outs):
    return [k for k in outs if k != "model"]


def apply_pred(ctx, suite, pred, outs, argfn, descfn, kf=None, select=None):
    """argfn(k, i) -> encoded argument string or None to skip"""
    for k in backends(outs):
        idx, args = [], []
        for i in range(len(outs[k])):
            if select and not select(k, i):
                continue
            a = argfn(k, i)
            if a is None:
                continue
            idx.append(i)
            args.append(a)
        ok = core.eval_pred(ctx, pred, args)
        core.record_failures(ctx, suite, pred, ok,
                             lambda m, k=k, idx=idx: dict(backend=k, **descfn(k, idx[m])),
                             kf=kf, arglines=args)


def second_stage(ctx, name, outs, make_prog, profile=2):
    """for every backend k and index i with make_prog(k, i) != None run that program on
    backend k (and its model) and return {k: {i: reply}}"""
    res = {}
    for k in backends(outs):
        idx, progs = [], []
        for i in range(len(outs[k])):
            p = make_prog(k, i)
            if p is not None:
                idx.append(i)
                progs.append(p)
        reqs = [("observe", [profile, p]) for p in progs]
        o = core.check_suite(ctx, name, reqs, split=True, kinds=("model", k)) if reqs else {k: []}
        res[k] = dict(zip(idx, o[k]))
    return res


def obs_str(reply):
    """the str() field of an observation reply, or None"""
    if not reply.startswith("["):
        return None
    v = dec(reply)
    return v[0] if isinstance(v[0], str) else None
