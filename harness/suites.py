"""Suites shared by several property modules."""
import core
import gens
from proto import dec, enc


def is_autoenc(prog):
    for ins in prog:
        if ins[0] == "push":
            c = ins[1]
            if c[0] == "enc" or (c[0] == "build" and c[-1]):
                return False
        elif ins[0] == "op":
            if ins[1] == "with_path" and ins[3]:
                return False
            if ins[1] == "joinpath" and ins[3]:
                return False
    return True


def standard_programs(ctx, n_urls, n_progs, maxops=3):
    rng = ctx.rng
    progs = [[["push", ["url", s]]] for s in gens.structured_urls(rng, n_urls)]
    progs += gens.random_programs(rng, n_progs, maxops=maxops)
    return progs


def touched(prog):
    """the same program with every intermediate value used (hashed, printed, compared with
    itself, all accessors read) before the next instruction works on it; the pure model
    ignores ["touch"], so any visible effect is a dependence on history"""
    out = []
    for i, ins in enumerate(prog):
        out.append(ins)
        if i + 1 < len(prog) and ins[0] != "touch":
            out.append(["touch"])
    return out


def touch_invariance(ctx, name, progs, limit):
    """each multi-step program with and without the touches: equal, same hash, not ordered,
    and observed identically (implementation against itself, and against the model)"""
    multi = [p for p in progs if len(p) > 1][:limit]
    if not multi:
        return
    tp = [touched(p) for p in multi]
    cmps = core.check_suite(ctx, name + "-compare", [("compare", [t, p]) for t, p in zip(tp, multi)], split=True)
    o1 = observe(ctx, name + "-plain", multi)
    o2 = observe(ctx, name + "-touched", tp)
    for k in backends(cmps):
        for n, p in enumerate(multi):
            c = cmps[k][n]
            if c.startswith("[") and c != "[ T F T F T T ]":
                ctx.violation(kind="predicate-failure", suite=name, backend=k,
                              predicate="a value derived from a used (hashed/printed/read) URL equals, and hashes like, the one derived from an unused URL",
                              program=tp[n], impl=c)
            elif o1[k][n] != o2[k][n]:
                ctx.violation(kind="predicate-failure", suite=name, backend=k,
                              predicate="observation of a derived URL does not depend on whether the intermediate URLs were used",
                              program=tp[n], impl=o2[k][n][:600], plain=o1[k][n][:600])


def observe(ctx, name, progs, profile=2, **kw):
    reqs = [("observe", [profile, p]) for p in progs]
    return core.check_suite(ctx, name, reqs, split=True,
                            nontrivial=kw.pop("nontrivial", lambda rs: {repr(a) for _, a in rs}), **kw)


def backends(outs):
    return [k for k in outs if k != "model"]


def apply_pred(ctx, suite, pred, outs, argfn, descfn, kf=None, select=None):
    """argfn(k, i) -> encoded argument string or None to skip"""
    for k in backends(outs):
        idx, args = [], []
        for i in range(len(outs[k])):
            if select and not select(k, i):
                continue
            a = argfn(k, i)
            if a is None:
                continue
            idx.append(i)
            args.append(a)
        ok = core.eval_pred(ctx, pred, args)
        core.record_failures(ctx, suite, pred, ok,
                             lambda m, k=k, idx=idx: dict(backend=k, **descfn(k, idx[m])),
                             kf=kf, arglines=args)


def second_stage(ctx, name, outs, make_prog, profile=2):
    """for every backend k and index i with make_prog(k, i) != None run that program on
    backend k (and its model) and return {k: {i: reply}}"""
    res = {}
    for k in backends(outs):
        idx, progs = [], []
        for i in range(len(outs[k])):
            p = make_prog(k, i)
            if p is not None:
                idx.append(i)
                progs.append(p)
        reqs = [("observe", [profile, p]) for p in progs]
        o = core.check_suite(ctx, name, reqs, split=True, kinds=("model", k)) if reqs else {k: []}
        res[k] = dict(zip(idx, o[k]))
    return res


def obs_str(reply):
    """the str() field of an observation reply, or None"""
    if not reply.startswith("["):
        return None
    v = dec(reply)
    return v[0] if isinstance(v[0], str) else None
