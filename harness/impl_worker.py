"""Implementation worker: runs inside the overlay copy of /repo's yarl (PYTHONPATH is
set by the harness; YARL_NO_EXTENSIONS selects the backend) and serves the same token
protocol as the extracted model.  Exceptions are reported by type only."""
import os
import sys

sys.path.insert(0, os.path.dirname(os.path.abspath(__file__)))
from proto import Exn, dec_all, enc  # noqa: E402

import yarl  # noqa: E402
from yarl import URL  # noqa: E402
from yarl import _path, _parse, _quoters, _quoting, _url, _query  # noqa: E402

EXN_MAP = [
    (RecursionError, "RecursionError"),
    (MemoryError, "MemoryError"),
    (ValueError, "ValueError"),  # includes UnicodeError
    (TypeError, "TypeError"),
    (IndexError, "IndexError"),
    (KeyError, "KeyError"),
    (AttributeError, "AttributeError"),
    (AssertionError, "AssertionError"),
]


def exn_of(e):
    for cls, name in EXN_MAP:
        if isinstance(e, cls):
            return Exn(name)
    return Exn("OtherError")


FUNCS = {}


def fn(f):
    FUNCS[f.__name__] = f
    return f


@fn
def backend():
    return _quoting._Quoter.__module__


@fn
def normalize_path(s):
    return _path.normalize_path(s)


@fn
def normalize_path_segments(l):
    return _path.normalize_path_segments(list(l))


QNAMES = ["QUOTER", "REQUOTER", "PATH_QUOTER", "PATH_REQUOTER", "QUERY_QUOTER", "QUERY_REQUOTER",
          "QUERY_PART_QUOTER", "FRAGMENT_QUOTER", "FRAGMENT_REQUOTER"]
UNAMES = ["UNQUOTER", "PATH_UNQUOTER", "PATH_SAFE_UNQUOTER", "QS_UNQUOTER"]


@fn
def quote(i, s):
    return getattr(_quoters, QNAMES[i])(s)


@fn
def unquote(i, s):
    return getattr(_quoters, UNAMES[i])(s)


def load_extra():
    # further entry points live in impl_funcs.py (kept separate so the worker core
    # stays small)
    try:
        import impl_funcs
    except ImportError:
        return
    impl_funcs.register(fn)


def main():
    load_extra()
    out = sys.stdout
    for line in sys.stdin:
        line = line.rstrip("\n")
        if not line:
            out.write("Eempty\n")
            continue
        name, _, rest = line.partition(" ")
        try:
            f = FUNCS[name]
        except KeyError:
            out.write("Edriver:unknown_function\n")
            continue
        try:
            args = dec_all(rest)
            r = f(*args)
        except BaseException as e:  # noqa: B902
            if isinstance(e, (KeyboardInterrupt, SystemExit)):
                raise
            r = exn_of(e)
        out.write(enc(r))
        out.write("\n")
        if not BATCH:
            out.flush()
    out.flush()


BATCH = os.environ.get("VERIF_WORKER_BATCH") == "1"
if __name__ == "__main__":
    main()
