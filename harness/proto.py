"""Token protocol shared by the extracted Coq model (ocaml/driver) and the
implementation worker (harness/impl_worker.py).

value ::= S<hex>.<hex>... | N | I<int> | T | F | [ value* ] | E<name>
"""


class Exn:
    __slots__ = ("name",)

    def __init__(self, name):
        self.name = name

    def __eq__(self, other):
        return isinstance(other, Exn) and other.name == self.name

    def __hash__(self):
        return hash(("Exn", self.name))

    def __repr__(self):
        return f"Exn({self.name})"


def enc(v, out=None):
    top = out is None
    if top:
        out = []
    if v is None:
        out.append("N")
    elif v is True:
        out.append("T")
    elif v is False:
        out.append("F")
    elif isinstance(v, str):
        out.append("S" + ".".join(format(ord(c), "x") for c in v))
    elif isinstance(v, int):
        out.append("I%d" % v)
    elif isinstance(v, (list, tuple)):
        out.append("[")
        for x in v:
            enc(x, out)
        out.append("]")
    elif isinstance(v, Exn):
        out.append("E" + v.name)
    else:
        raise TypeError(f"cannot encode {type(v)}")
    if top:
        return " ".join(out)


def _dec(toks, i):
    t = toks[i]
    c = t[0]
    if c == "S":
        body = t[1:]
        if not body:
            return "", i + 1
        return "".join(chr(int(h, 16)) for h in body.split(".")), i + 1
    if c == "N":
        return None, i + 1
    if c == "I":
        return int(t[1:]), i + 1
    if c == "T":
        return True, i + 1
    if c == "F":
        return False, i + 1
    if c == "E":
        return Exn(t[1:]), i + 1
    if c == "[":
        i += 1
        lst = []
        while toks[i] != "]":
            v, i = _dec(toks, i)
            lst.append(v)
        return lst, i + 1
    raise ValueError(f"bad token {t!r}")


def dec(line):
    toks = line.split()
    v, i = _dec(toks, 0)
    if i != len(toks):
        raise ValueError(f"trailing tokens in {line!r}")
    return v


def dec_all(line):
    toks = line.split()
    i = 0
    out = []
    while i < len(toks):
        v, i = _dec(toks, i)
        out.append(v)
    return out


def call_line(fn, *args):
    return fn + " " + " ".join(enc(a) for a in args)
