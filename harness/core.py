"""Shared machinery of the checks: build (tables, Coq, extraction, overlay), protocol
processes, oracle service, comparison, verdict, evidence."""
import fcntl
import hashlib
import json
import os
import random
import re
import shutil
import subprocess
import sys
import sysconfig
import tempfile
import threading
import time

HERE = os.path.dirname(os.path.abspath(__file__))
VERIF = os.path.dirname(HERE)
REPO = os.environ.get("VERIF_REPO", "/repo")
BUILD = os.path.join(VERIF, "build")
COQ = os.path.join(VERIF, "coq")
PY = sys.executable
sys.path.insert(0, HERE)

from proto import Exn, call_line, dec, dec_all, enc  # noqa: E402

NCPU = min(16, os.cpu_count() or 4)


def sh(cmd, cwd=None, timeout=3600, env=None):
    p = subprocess.run(cmd, cwd=cwd, shell=isinstance(cmd, str), timeout=timeout,
                       stdout=subprocess.PIPE, stderr=subprocess.STDOUT, text=True, env=env)
    return p.returncode, p.stdout


def sha(paths):
    h = hashlib.sha256()
    for p in sorted(paths):
        h.update(p.encode())
        with open(p, "rb") as f:
            h.update(f.read())
    return h.hexdigest()[:16]


class Lock:
    def __init__(self, name):
        os.makedirs(BUILD, exist_ok=True)
        self.path = os.path.join(BUILD, name)

    def __enter__(self):
        self.f = open(self.path, "w")
        fcntl.flock(self.f, fcntl.LOCK_EX)
        return self

    def __exit__(self, *a):
        fcntl.flock(self.f, fcntl.LOCK_UN)
        self.f.close()


# ----------------------------------------------------------------------------------
# overlay: a scratch copy of /repo's yarl package, compiled extension included
# ----------------------------------------------------------------------------------

def repo_sources():
    d = os.path.join(REPO, "yarl")
    return [os.path.join(d, f) for f in sorted(os.listdir(d))
            if f.endswith((".py", ".pyx", ".pyi", ".typed"))]


def build_overlay():
    """Returns (overlay_dir, c_ok, log).  overlay_dir/yarl is a copy of the working
    tree's package; the extension is re-cythonized and compiled there."""
    srcs = repo_sources()
    key = sha(srcs)
    root = os.path.join(BUILD, "overlay")
    dst = os.path.join(root, key)
    marker = os.path.join(dst, ".done")
    if os.path.exists(marker):
        with open(marker) as f:
            info = json.load(f)
        return dst, info["c_ok"], info["log"]
    # prune older overlays
    if os.path.isdir(root):
        for d in os.listdir(root):
            if d != key:
                shutil.rmtree(os.path.join(root, d), ignore_errors=True)
    pkg = os.path.join(dst, "yarl")
    os.makedirs(pkg, exist_ok=True)
    for s in srcs:
        shutil.copy(s, pkg)
    inc = sysconfig.get_paths()["include"]
    ext = sysconfig.get_config_var("EXT_SUFFIX")
    rc, log = sh([PY, "-m", "cython", "-3", "-o", "_quoting_c.c", "_quoting_c.pyx"], cwd=pkg)
    c_ok = rc == 0
    if c_ok:
        rc, log2 = sh(["gcc", "-shared", "-fPIC", "-O2", "-I" + inc, "_quoting_c.c",
                       "-o", "_quoting_c" + ext], cwd=pkg)
        log += log2
        c_ok = rc == 0
    with open(marker, "w") as f:
        json.dump({"c_ok": c_ok, "log": log[-4000:]}, f)
    return dst, c_ok, log[-4000:]


# ----------------------------------------------------------------------------------
# Coq build
# ----------------------------------------------------------------------------------

def coq_files():
    out = []
    for d, _, fs in os.walk(COQ):
        for f in fs:
            if f.endswith(".v"):
                out.append(os.path.join(d, f))
    return sorted(out)


FORBIDDEN = re.compile(
    r"\b(Admitted|admit|Axiom|Axioms|Parameter|Parameters|Conjecture|Conjectures|"
    r"Admit\s+Obligations|Unset\s+Guard\s+Checking|bypass_check|"
    r"Unset\s+Positivity\s+Checking|Unset\s+Universe\s+Checking|type-in-type|"
    r"impredicative-set|native_compute)\b")


def strip_comments(text):
    out = []
    depth = 0
    i = 0
    while i < len(text):
        if text.startswith("(*", i):
            depth += 1
            i += 2
        elif text.startswith("*)", i) and depth:
            depth -= 1
            i += 2
        else:
            if depth == 0:
                out.append(text[i])
            i += 1
    return "".join(out)


def forbidden_scan():
    bad = []
    for p in coq_files():
        with open(p) as f:
            body = strip_comments(f.read())
        for m in FORBIDDEN.finditer(body):
            bad.append(f"{os.path.relpath(p, COQ)}: {m.group(0)}")
        # Variable/Hypothesis outside a Section
        depth = 0
        for line in body.splitlines():
            s = line.strip()
            if re.match(r"Section\s+\w+", s):
                depth += 1
            elif re.match(r"End\s+\w+\s*\.", s) and depth:
                depth -= 1
            elif depth == 0 and re.match(r"(Variable|Variables|Hypothesis|Hypotheses|Context)\b", s):
                bad.append(f"{os.path.relpath(p, COQ)}: {s[:40]} outside a Section")
    return bad


def ensure_coq(report):
    """Regenerate the tables from /repo, (re)build the Coq development with make -k,
    extract the model and compile the driver.  Fills [report]."""
    import gen_tables
    with Lock(".build.lock"):
        t0 = time.time()
        tab = os.path.join(COQ, "Generated", "Tables.v")
        os.makedirs(os.path.dirname(tab), exist_ok=True)
        try:
            text = gen_tables.generate(REPO)
            report["tables_error"] = None
        except Exception as e:  # fail closed
            text = None
            report["tables_error"] = f"{type(e).__name__}: {e}"
        if text is not None:
            old = open(tab).read() if os.path.exists(tab) else None
            if old != text:
                with open(tab, "w") as f:
                    f.write(text)
            pinned = os.path.join(COQ, "Generated", "Tables.pinned")
            report["tables_differ_from_pinned"] = (
                os.path.exists(pinned) and open(pinned).read() != text)
        # the functions of yarl/_path.py, re-translated from the source (fail closed: a stub and the reason)
        import gen_model
        try:
            gtexts, gerrs = gen_model.generate_all(REPO)
        except Exception as e:  # noqa: B902
            gtexts, gerrs = {}, [f"{type(e).__name__}: {e}"]
        report["model_gen_errors"] = gerrs
        for mod, gtext in gtexts.items():
            gen = os.path.join(COQ, "Generated", mod + ".v")
            if not os.path.exists(gen) or open(gen).read() != gtext:
                with open(gen, "w") as f:
                    f.write(gtext)
        mk = os.path.join(COQ, "Makefile")
        proj = os.path.join(COQ, "_CoqProject")
        write_coqproject()
        if not os.path.exists(mk) or os.path.getmtime(mk) < os.path.getmtime(proj):
            sh("coq_makefile -f _CoqProject -o Makefile", cwd=COQ)
        rc, log = sh(f"timeout 3000 make -k -j{NCPU} 2>&1", cwd=COQ, timeout=3100)
        report["make_rc"] = rc
        report["make_log_tail"] = log[-6000:]
        report["forbidden"] = forbidden_scan()
        # extraction + driver
        drv = os.path.join(BUILD, "driver")
        vos = [p[:-2] + ".vo" for p in coq_files() if "/Properties/" not in p and "/Proofs/" not in p
               and not p.endswith("Extract.v")]
        vos = [p for p in vos if os.path.exists(p)]
        stamp_inputs = vos + [os.path.join(COQ, "Extract.v")] + [
            os.path.join(VERIF, "ocaml", f) for f in sorted(os.listdir(os.path.join(VERIF, "ocaml")))]
        key = sha(stamp_inputs)
        stamp = os.path.join(BUILD, ".driver.stamp")
        if not (os.path.exists(drv) and os.path.exists(stamp) and open(stamp).read() == key):
            rc1, log1 = sh("coqc -Q ../coq Yarl -o Extract.vo ../coq/Extract.v 2>&1", cwd=BUILD, timeout=900)
            for f in os.listdir(os.path.join(VERIF, "ocaml")):
                shutil.copy(os.path.join(VERIF, "ocaml", f), BUILD)
            rc2, log2 = sh("ocamlfind ocamlopt -w -a model.mli model.ml driver_base.ml driver.ml -o driver 2>&1",
                           cwd=BUILD, timeout=900)
            report["driver_rc"] = rc1 or rc2
            report["driver_log"] = (log1 + log2)[-3000:]
            if rc1 == 0 and rc2 == 0:
                with open(stamp, "w") as f:
                    f.write(key)
            elif os.path.exists(stamp):
                os.remove(stamp)
        else:
            report["driver_rc"] = 0
        report["build_s"] = round(time.time() - t0, 1)


def write_coqproject():
    lines = ["-Q . Yarl", "-arg -w -arg -notation-overridden,-deprecated-hint-without-locality,-deprecated-instance-without-locality"]
    for p in coq_files():
        rel = os.path.relpath(p, COQ)
        if rel == "Extract.v":
            continue
        lines.append(rel)
    text = "\n".join(lines) + "\n"
    proj = os.path.join(COQ, "_CoqProject")
    if not os.path.exists(proj) or open(proj).read() != text:
        with open(proj, "w") as f:
            f.write(text)


def property_obligations(prop):
    """Theorems of Properties/<prop>.v, whether the file compiled, and the
    Print Assumptions output per theorem."""
    src = os.path.join(COQ, "Properties", prop + ".v")
    vo = src[:-2] + ".vo"
    text = strip_comments(open(src).read())
    names = re.findall(r"^\s*(?:Theorem|Lemma|Corollary|Example)\s+(\w+)", text, re.M)
    compiled = os.path.exists(vo) and os.path.getmtime(vo) >= os.path.getmtime(src)
    res = {"names": names, "compiled": compiled, "assumptions": {}, "error": None}
    # re-run coqc on the property file alone to capture Print Assumptions
    key = sha([src] + [p[:-2] + ".vo" for p in coq_files() if os.path.exists(p[:-2] + ".vo") and "/Properties/" not in p])
    cache = os.path.join(BUILD, f".assum.{prop}.{key}.json")
    if os.path.exists(cache):
        return json.load(open(cache))
    with tempfile.TemporaryDirectory() as td:
        rc, out = sh(f"timeout 900 coqc -Q . Yarl -o {td}/{prop}.vo Properties/{prop}.v 2>&1", cwd=COQ, timeout=1000)
    if rc != 0:
        res["compiled"] = False
        res["error"] = out[-3000:]
    else:
        # Print Assumptions blocks appear in order of the commands
        blocks = re.split(r"\n(?=Closed under the global context|Axioms:)", "\n" + out)
        blocks = [b.strip() for b in blocks if b.strip()]
        pa = re.findall(r"Print\s+Assumptions\s+(\w+)", text)
        for n, b in zip(pa, blocks):
            res["assumptions"][n] = "closed" if b.startswith("Closed under the global context") else b[:600]
    for f in os.listdir(BUILD):
        if f.startswith(f".assum.{prop}."):
            os.remove(os.path.join(BUILD, f))
    if rc == 0:
        with open(cache, "w") as f:
            json.dump(res, f)
    return res


def coqchk_summary(prop):
    """Thorough tier: re-check the compiled property file and everything it depends on with the
    independent checker and return its context summary (axioms, type-in-type, unsafe fixpoints,
    assumed positivity).  Cached by the content of the .vo files."""
    vo = os.path.join(COQ, "Properties", prop + ".vo")
    if not os.path.exists(vo):
        return {"ran": False, "reason": "no compiled property file"}
    key = sha([p[:-2] + ".vo" for p in coq_files() if os.path.exists(p[:-2] + ".vo")])
    cache = os.path.join(BUILD, f".coqchk.{prop}.{key}.json")
    if os.path.exists(cache):
        return json.load(open(cache))
    t0 = time.time()
    rc, out = sh(f"timeout 3000 coqchk -o -silent -Q . Yarl Yarl.Properties.{prop} 2>&1", cwd=COQ, timeout=3100)
    res = {"ran": True, "rc": rc, "seconds": round(time.time() - t0, 1), "summary": {}}
    for label, name in (("Axioms", "axioms"), ("Constants/Inductives relying on type-in-type", "type_in_type"),
                        ("Constants/Inductives relying on unsafe (co)fixpoints", "unsafe_fixpoints"),
                        ("Inductives whose positivity is assumed", "assumed_positivity")):
        m = re.search(r"\* " + re.escape(label) + r":\s*(.*?)(?=\n\s*\n\*|\Z)", out, re.S)
        res["summary"][name] = " ".join(m.group(1).split()) if m else "?"
    res["clean"] = rc == 0 and all(v == "<none>" for v in res["summary"].values())
    if not res["clean"]:
        res["tail"] = out[-1500:]
    for f in os.listdir(BUILD):
        if f.startswith(f".coqchk.{prop}."):
            os.remove(os.path.join(BUILD, f))
    if rc == 0:
        with open(cache, "w") as f:
            json.dump(res, f)
    return res


# ----------------------------------------------------------------------------------
# oracles (real libraries, consulted by the extracted model on demand)
# ----------------------------------------------------------------------------------

ORACLE_PREMISE_BREACHES = []   # answers of the real libraries that contradict a premise of a theorem (clean_oracles)


def oracle_answer(name, arg):
    ans = _oracle_answer(name, arg)
    # premises of C01_programs_userinfo (Proofs/NetlocReach.v: clean_oracles): the address compressor and the IDNA
    # encoders never write '@', str.lower() keeps '@' as it is
    try:
        if name == "ip_parse" and ans is not None and "@" in ans[1]:
            ORACLE_PREMISE_BREACHES.append((name, arg, ans))
        elif name in ("idna2008_enc", "idna2003_enc") and ans is not None and "@" in ans:
            ORACLE_PREMISE_BREACHES.append((name, arg, ans))
        elif name == "lower" and ("@" in ans) != ("@" in arg):
            ORACLE_PREMISE_BREACHES.append((name, arg, ans))
    except TypeError:
        pass
    return ans


def _oracle_answer(name, arg):
    import ipaddress
    import unicodedata
    if name == "ip_parse":
        try:
            ip = ipaddress.ip_address(arg)
        except ValueError:
            return None
        return [ip.version, ip.compressed]
    if name == "idna2008_enc":
        import idna
        try:
            return idna.encode(arg, uts46=True).decode("ascii")
        except UnicodeError:
            return None
    if name == "idna2003_enc":
        try:
            return arg.encode("idna").decode("ascii")
        except UnicodeError:
            return None
    if name == "idna2008_dec":
        import idna
        try:
            return idna.decode(arg.encode("ascii"))
        except UnicodeError:
            return None
    if name == "idna2003_dec":
        try:
            return arg.encode("ascii").decode("idna")
        except UnicodeError:
            return None
    if name == "nfkc":
        return unicodedata.normalize("NFKC", arg)
    if name == "lower":
        return arg.lower()
    raise KeyError(name)


class OracleServer(threading.Thread):
    def __init__(self, qpath, rpath):
        super().__init__(daemon=True)
        self.qpath, self.rpath = qpath, rpath
        self.count = 0

    def run(self):
        r = None
        with open(self.qpath, "r") as q:
            for line in q:
                if r is None:
                    r = open(self.rpath, "w")
                name, _, rest = line.rstrip("\n").partition(" ")
                try:
                    ans = oracle_answer(name, dec(rest))
                    r.write(enc(ans) + "\n")
                except Exception as e:  # noqa: B902
                    r.write("Eoracle:" + type(e).__name__ + "\n")
                r.flush()
                self.count += 1


# ----------------------------------------------------------------------------------
# protocol processes
# ----------------------------------------------------------------------------------

class Proc:
    """A batch run of one protocol process over a list of request lines."""

    def __init__(self, kind, overlay=None):
        self.kind = kind
        self.overlay = overlay

    def run(self, lines):
        td = tempfile.mkdtemp(prefix="verif-proc-")
        try:
            env = dict(os.environ)
            if self.kind == "model":
                q, r = os.path.join(td, "q"), os.path.join(td, "r")
                os.mkfifo(q)
                os.mkfifo(r)
                env["VERIF_ORACLE_Q"] = q
                env["VERIF_ORACLE_R"] = r
                srv = OracleServer(q, r)
                srv.start()
                cmd = ["bash", "-c", "ulimit -s unlimited 2>/dev/null; exec " + os.path.join(BUILD, "driver")]
            else:
                env["PYTHONPATH"] = self.overlay
                env["PYTHONHASHSEED"] = "0"
                env["VERIF_WORKER_BATCH"] = "1"
                env.pop("YARL_NO_EXTENSIONS", None)
                if self.kind == "py":
                    env["YARL_NO_EXTENSIONS"] = "1"
                cmd = [PY, os.path.join(HERE, "impl_worker.py")]
            inp = os.path.join(td, "in")
            with open(inp, "w") as f:
                f.write("\n".join(lines))
                f.write("\n")
            with open(inp) as fin:
                p = subprocess.run(cmd, stdin=fin, stdout=subprocess.PIPE, stderr=subprocess.PIPE,
                                   text=True, env=env)
            if self.kind == "model":
                try:  # release the oracle thread if the driver never opened the FIFO
                    os.close(os.open(q, os.O_WRONLY | os.O_NONBLOCK))
                except OSError:
                    pass
            out = p.stdout.split("\n")
            if out and out[-1] == "":
                out.pop()
            if len(out) != len(lines):
                raise RuntimeError(
                    f"{self.kind}: {len(out)} replies for {len(lines)} requests; rc={p.returncode}; "
                    f"stderr={p.stderr[-2000:]}")
            return out
        finally:
            shutil.rmtree(td, ignore_errors=True)


def run_sharded(kind, overlay, lines, shards=None):
    if not lines:
        return []
    shards = shards or max(1, min(NCPU // 3, len(lines) // 2000 + 1))
    n = len(lines)
    step = (n + shards - 1) // shards
    chunks = [lines[i:i + step] for i in range(0, n, step)]
    results = [None] * len(chunks)
    errs = []

    def work(i):
        try:
            results[i] = Proc(kind, overlay).run(chunks[i])
        except Exception as e:  # noqa: B902
            errs.append(e)

    ths = [threading.Thread(target=work, args=(i,)) for i in range(len(chunks))]
    for t in ths:
        t.start()
    for t in ths:
        t.join()
    if errs:
        raise errs[0]
    return [x for r in results for x in r]


def run_all(ctx, lines, kinds=("model", "py", "c")):
    """Run the same request lines through the model and the implementation backends."""
    out = {}
    ths = []
    errs = []

    def work(k):
        try:
            out[k] = run_sharded(k, ctx.overlay, lines)
        except Exception as e:  # noqa: B902
            errs.append((k, e))

    for k in kinds:
        if k == "c" and not ctx.c_ok:
            continue
        t = threading.Thread(target=work, args=(k,))
        t.start()
        ths.append(t)
    for t in ths:
        t.join()
    if errs:
        raise RuntimeError(f"{errs[0][0]}: {errs[0][1]}")
    return out


# ----------------------------------------------------------------------------------
# context, verdict, evidence
# ----------------------------------------------------------------------------------

class Ctx:
    def __init__(self, prop, tier, seed):
        self.prop, self.tier, self.seed = prop, tier, seed
        self.rng = random.Random(seed * 1000003 + int(prop[1:]))
        self.t0 = time.time()
        self.report = {}
        self.evaluations = 0
        self.nontrivial = set()
        self.samples = []
        self.suites = {}
        self.violations = []      # dicts: kind, suite, input, observed, model, predicate...
        self.known_hits = {}      # finding id -> count
        self.known_what = {}
        self.notes = []
        self.overlay = None
        self.c_ok = False
        self.exhaustive = []
        self.histogram = {}

    @property
    def quick(self):
        return self.tier == "quick"

    def count(self, suite, n, nontrivial_keys=(), samples=(), exhaustive=False, hist=None):
        self.evaluations += n
        s = self.suites.setdefault(suite, {"cases": 0})
        s["cases"] += n
        for k in nontrivial_keys:
            self.nontrivial.add(k)
        for x in samples:
            if len(self.samples) < 24:
                self.samples.append(x)
        if exhaustive:
            s["exhaustive"] = True
        if hist:
            h = s.setdefault("classes", {})
            for k, v in hist.items():
                h[k] = h.get(k, 0) + v

    def violation(self, **kw):
        self.violations.append(kw)


def load_known_findings(prop):
    path = os.path.join(VERIF, "known_findings.txt")
    out = []
    if not os.path.exists(path):
        return out
    for line in open(path):
        line = line.strip()
        if not line.startswith("finding:"):
            continue
        fields = dict(re.findall(r"(\w+)=((?:\"[^\"]*\")|\S+)", line.split(" witness=")[0]))
        if fields.get("property") == prop:
            fields = {k: v.strip('"') for k, v in fields.items()}
            m = re.search(r"what=(.*?)(?: witness=|$)", line)
            fields["what"] = m.group(1).strip() if m else ""
            m = re.search(r" witness=(.*)$", line)
            if m:
                try:
                    fields["witness"] = json.loads(m.group(1))
                except ValueError:
                    fields["witness"] = None
            out.append(fields)
    return out


def kf_list(ctx):
    """(finding id, extracted classifier) pairs of the open known findings of this
    property, as listed in known_findings.txt (the committed file is the only source)"""
    return [(f["id"], f["class"]) for f in getattr(ctx, "findings", []) if f.get("id") and f.get("class")]


def write_replay(ctx, v, idx):
    os.makedirs(os.path.join(VERIF, "replays"), exist_ok=True)
    h = hashlib.sha256(json.dumps(v, sort_keys=True, default=str).encode()).hexdigest()[:10]
    path = os.path.join(VERIF, "replays", f"{ctx.prop}-{h}.json")
    doc = {"property": ctx.prop, "seed": ctx.seed, "tier": ctx.tier}
    doc.update(v)
    with open(path, "w") as f:
        json.dump(doc, f, indent=1, default=str, ensure_ascii=True)
    return path


def finish(ctx, obligations, trusted_base, level_note_assumptions, rule):
    """Decide the verdict, write the evidence, print VIOLATION / KNOWN-FINDING lines."""
    prop = ctx.prop
    names = obligations["names"]
    closed = [n for n in names if obligations["assumptions"].get(n) == "closed"]
    with_axioms = {n: a for n, a in obligations["assumptions"].items() if a != "closed"}
    proof_ok = (obligations["compiled"] and ctx.report.get("make_rc") == 0
                and not ctx.report.get("forbidden") and not ctx.report.get("tables_error"))
    # Properties/<prop>.v itself may compile while an unrelated file is broken:
    if obligations["compiled"] and ctx.report.get("make_rc") != 0 and not ctx.report.get("forbidden") \
            and not ctx.report.get("tables_error"):
        proof_ok = True
        ctx.notes.append("make reported an error in a file this property does not depend on")
    rc = 0
    lines = []
    for fid, n in sorted(ctx.known_hits.items()):
        what = ctx.known_what.get(fid, "")
        lines.append(f"KNOWN-FINDING: property={prop} id={fid} {what} (reproduced on {n} cases of this run)")
    for f in getattr(ctx, "findings", []):
        if f.get("id") not in ctx.known_hits:
            ctx.notes.append(f"known finding {f.get('id')} did not reproduce in this run (witness no longer fails)")
    real = ctx.violations
    if os.environ.get("VERIF_DEBUG"):
        for v in real[:40]:
            print("DEBUG violation:", {k: (shorten(safe_dec(x), 400) if isinstance(x, str) and k in ("impl", "first", "reparsed", "model") else x)
                                       for k, x in v.items() if k not in ("request",)})
        for d in getattr(ctx, "diffs", [])[:20]:
            print("DEBUG diff:", {k: x for k, x in d.items() if k not in ("request", "model", "impl")})
    if real:
        rc = 1
        seen = set()
        for i, v in enumerate(real[:5]):
            key = (v.get("suite"), v.get("predicate"), v.get("kind"))
            if key in seen:
                continue
            seen.add(key)
            path = write_replay(ctx, v, i)
            lines.append(f"VIOLATION property={prop} replay={path}")
    elif not proof_ok:
        rc = 1
        v = {"kind": "proof-broken", "theorem_file": f"coq/Properties/{prop}.v",
             "theorems": names, "coqc_error": obligations.get("error"),
             "make_log_tail": ctx.report.get("make_log_tail"),
             "forbidden": ctx.report.get("forbidden"), "tables_error": ctx.report.get("tables_error"),
             "model_gen_errors": ctx.report.get("model_gen_errors"),
             "note": "no concrete failing input was found by the correspondence and predicate suites"}
        path = write_replay(ctx, v, 0)
        lines.append(f"VIOLATION property={prop} replay={path} no-failing-input-found")
    ev = {
        "property_id": prop, "tier": ctx.tier, "seed": ctx.seed, "level": "proof",
        "coverage": {
            "obligations": len(names),
            "discharged": len(closed) if proof_ok else 0,
            "checker_cmd": f"make -C /verif/coq (coqc 8.16.1, full .vo build) ; coqc Properties/{prop}.v with Print Assumptions",
            "trusted_base": trusted_base,
            "theorems": names,
            "theorems_with_axioms": with_axioms,
            "evaluations": ctx.evaluations,
            "distinct_nontrivial": len(ctx.nontrivial),
            "rule": rule,
            "samples": ctx.samples[:24],
            "suites": ctx.suites,
            "exhaustive": bool(ctx.suites) and all(s.get("exhaustive") for s in ctx.suites.values()),
            "known_finding_hits": ctx.known_hits,
            "backends": ["py"] + (["c"] if ctx.c_ok else []),
            "build": {k: ctx.report.get(k) for k in
                      ("make_rc", "driver_rc", "build_s", "tables_differ_from_pinned", "tables_error", "model_gen_errors", "forbidden", "coqchk")},
            "notes": ctx.notes + ([f"oracle premise (clean_oracles) contradicted by the real library: {ORACLE_PREMISE_BREACHES[:3]}"]
                                  if ORACLE_PREMISE_BREACHES else []),
            "oracle_premise_breaches": len(ORACLE_PREMISE_BREACHES),
        },
        "assumptions": level_note_assumptions,
        "wall_s": round(time.time() - ctx.t0, 2),
        "violations": len(real) + (0 if proof_ok or real else 1),
    }
    os.makedirs(os.path.join(VERIF, "evidence"), exist_ok=True)
    with open(os.path.join(VERIF, "evidence", prop + ".json"), "w") as f:
        json.dump(ev, f, indent=1, default=str, ensure_ascii=True)
    for ln in lines:
        print(ln)
    print(f"{prop}: {'FAIL' if rc else 'ok'} obligations={len(names)} discharged={ev['coverage']['discharged']} "
          f"evaluations={ctx.evaluations} wall={ev['wall_s']}s")
    return rc


# ----------------------------------------------------------------------------------
# suites: correspondence (model vs implementation) + theorem predicates on the
# implementation's outputs
# ----------------------------------------------------------------------------------

def args_of(line):
    return line.split(" ", 1)[1] if " " in line else ""


def shorten(v, n=200):
    s = repr(v)
    return s if len(s) <= n else s[:n] + "..."


def check_suite(ctx, name, reqs, pred=None, kf=None, exhaustive=False, nontrivial=None,
                classes=None, kinds=None, compare=True, split=False, cross=False, cross_skip=None):
    """reqs: list of (fn, args).  Runs model and implementation(s), records every
    correspondence difference in ctx.diffs, evaluates the extracted theorem predicate
    [pred] (a model-driver function taking the request arguments followed by the
    implementation's reply) on every implementation reply and records failures in
    ctx.violations unless the extracted classifier of an open known finding accepts
    the case.  kf: list of (finding_id, classifier_fn)."""
    if not reqs:
        return {}
    lines = [call_line(fn, *args) for fn, args in reqs]
    kinds = kinds or ("model", "py", "c")
    outs = run_all(ctx, lines, [k for k in kinds if k != "model"])
    impl_kinds = [k for k in outs if k != "model"]
    model_for = {}
    if "model" in kinds:
        if split:
            # the model of a backend-dependent entry point is selected by an @py / @c suffix
            for k in impl_kinds:
                ml = [call_line(fn + "@" + k, *args) for fn, args in reqs]
                model_for[k] = run_sharded("model", ctx.overlay, ml)
        else:
            m = run_sharded("model", ctx.overlay, lines)
            for k in impl_kinds:
                model_for[k] = m
    model = model_for.get(impl_kinds[0]) if impl_kinds else None
    outs["model"] = model
    if not hasattr(ctx, "diffs"):
        ctx.diffs = []
    ndiff = 0
    if compare and model_for:
        for k in impl_kinds:
            o = outs[k]
            for i, (a, b) in enumerate(zip(model_for[k], o)):
                if a != b:
                    ndiff += 1
                    if len(ctx.diffs) < 50:
                        ctx.diffs.append({"kind": "correspondence-diff", "suite": name, "backend": k,
                                          "request": lines[i], "request_repr": shorten(reqs[i]),
                                          "model": a, "impl": b,
                                          "model_repr": shorten(safe_dec(a)), "impl_repr": shorten(safe_dec(b))})
    nfail = 0
    if pred:
        for k in impl_kinds:
            o = outs[k]
            plines = [pred + " " + args_of(lines[i]) + " " + o[i] for i in range(len(lines))]
            pres = run_sharded("model", ctx.overlay, plines)
            bad = [i for i, r in enumerate(pres) if r != "T"]
            if bad and kf:
                # classify failing cases against open known findings
                for fid, cls in kf:
                    if not bad:
                        break
                    clines = [cls + " " + args_of(lines[i]) + " " + o[i] for i in bad]
                    cres = run_sharded("model", ctx.overlay, clines, shards=1)
                    still = []
                    for i, r in zip(bad, cres):
                        if r == "T":
                            ctx.known_hits[fid] = ctx.known_hits.get(fid, 0) + 1
                        else:
                            still.append(i)
                    bad = still
            for i in bad:
                nfail += 1
                if len(ctx.violations) < 50:
                    ctx.violation(kind="predicate-failure", suite=name, backend=k, predicate=pred,
                                  request=lines[i], request_repr=shorten(reqs[i]),
                                  impl=o[i], impl_repr=shorten(safe_dec(o[i])),
                                  model=model_for[k][i] if k in model_for else None,
                                  predicate_reply=pres[i])
    ncross = 0
    if cross and "py" in outs and "c" in outs:
        # the property itself for C05: both backends return the same value / exception type
        bad = [i for i, (a, b) in enumerate(zip(outs["py"], outs["c"])) if a != b]
        if bad and cross_skip:
            for fid, cls in cross_skip:
                if not bad:
                    break
                cres = run_sharded("model", ctx.overlay, [cls + " " + args_of(lines[i]) for i in bad], shards=1)
                still = []
                for i, r in zip(bad, cres):
                    if r == "T":
                        ctx.known_hits[fid] = ctx.known_hits.get(fid, 0) + 1
                    else:
                        still.append(i)
                bad = still
        for i in bad:
            ncross += 1
            if len(ctx.violations) < 50:
                ctx.violation(kind="predicate-failure", suite=name, predicate="pure-Python result == compiled result",
                              request=lines[i], request_repr=shorten(reqs[i]), py=outs["py"][i], c=outs["c"][i],
                              py_repr=shorten(safe_dec(outs["py"][i])), c_repr=shorten(safe_dec(outs["c"][i])))
    keys = nontrivial(reqs) if nontrivial else set(lines)
    ctx.count(name, len(reqs) * max(1, len(impl_kinds)), keys,
              samples=[{"suite": name, "request": shorten(reqs[i], 120),
                        "impl": shorten(safe_dec(outs[impl_kinds[0]][i]), 120) if impl_kinds else None}
                       for i in sample_idx(len(reqs), 3)],
              exhaustive=exhaustive, hist=classes)
    s = ctx.suites[name]
    s["correspondence_diffs"] = s.get("correspondence_diffs", 0) + ndiff
    s["predicate_failures"] = s.get("predicate_failures", 0) + nfail + ncross
    if cross:
        s["cross_backend_compared"] = True
    if pred:
        s["predicate"] = pred
    return outs


def sample_idx(n, k):
    if n <= k:
        return list(range(n))
    return [0, n // 2, n - 1][:k]


def safe_dec(line):
    try:
        return dec(line)
    except Exception:  # noqa: B902
        return line


def run_witnesses(ctx, findings, witness_fn):
    """For every open known finding of this property re-run its witness on the
    implementation; witness_fn(finding) -> True if it still reproduces."""
    for f in findings:
        fid = f.get("id", "?")
        ctx.known_what[fid] = f.get("what", "")
        try:
            ok = witness_fn(f)
        except Exception as e:  # noqa: B902
            ctx.notes.append(f"witness {fid} could not be run: {e}")
            ok = False
        if ok:
            ctx.known_hits[fid] = ctx.known_hits.get(fid, 0) + 1
        else:
            ctx.notes.append(f"known finding {fid} no longer reproduces on its witness")


def eval_pred(ctx, pred, arglines):
    """arglines: list of already encoded argument strings; returns list of bools"""
    if not arglines:
        return []
    res = run_sharded("model", ctx.overlay, [pred + " " + a for a in arglines])
    return [r == "T" for r in res]


def record_failures(ctx, suite, pred, ok, describe, kf=None, arglines=None):
    """ok: list of bools; describe(i) -> dict for the replay; kf: list of (id, classifier)
    evaluated on the same argument lines"""
    bad = [i for i, b in enumerate(ok) if not b]
    if bad and kf and arglines:
        # the classifier also sees the inputs of the failing case (program, constructor string, arguments)
        def with_prog(i):
            try:
                d = describe(i)
            except Exception:  # noqa: B902
                return arglines[i]
            inp = [d[k] for k in ("program", "programs", "input", "request", "base", "ref", "operation", "host", "text", "text2") if k in d]
            try:
                return arglines[i] + " " + enc(["__prog__", inp])
            except Exception:  # noqa: B902
                return arglines[i]
        for fid, cls in kf:
            if not bad:
                break
            cres = eval_pred(ctx, cls, [with_prog(i) for i in bad])
            still = []
            for i, r in zip(bad, cres):
                if r:
                    ctx.known_hits[fid] = ctx.known_hits.get(fid, 0) + 1
                else:
                    still.append(i)
            bad = still
    s = ctx.suites.setdefault(suite, {"cases": 0})
    s["predicate"] = pred
    s["predicate_failures"] = s.get("predicate_failures", 0) + len(bad)
    for i in bad[:20]:
        d = {"kind": "predicate-failure", "suite": suite, "predicate": pred}
        d.update(describe(i))
        ctx.violation(**d)
    return bad
