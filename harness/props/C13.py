"""C13 - path operations compose like a path algebra."""
import core
import gens
import suites
from proto import enc

TRUSTED_BASE = [
    "Coq 8.16.1 kernel (coqc); no axioms",
    "model coq/Model/Url.v (raw_parts, raw_name, raw_suffix(es), _make_child, with_name, with_suffix, parent) validated by correspondence",
    "extraction (ExtrOcamlBasic only), ocaml/driver*.ml, harness",
]
ASSUMPTIONS = ["source-to-model tie is differential testing; name/parent of u / s are proved for bases whose path is empty or rooted under an "
               "authority and that hold no dot segment when s has a dot (true of every URL built in auto-encoding mode); joinpath "
               "associativity and with_name's parent are checked by the extracted predicate c13_pred on the implementation, not proved"]
RULE = ("26 base shapes (with/without scheme, authority, root, trailing slash, escapes, dots in names) x 21 segment texts: static clauses "
        "on every URL; u / s vs joinpath(s) + name + parent; joinpath(a, b) vs chained vs u / 'a/b' for all segment pairs; "
        "with_name; with_suffix over 8 suffixes; encoded=True bases with lower-case / delimiter escapes inside a segment; the same argument object "
        "passed more than once to joinpath against the chained calls; plus random URLs; distinct = distinct request")

BASES = ["http://h", "http://h/", "http://h/a", "http://h/a/", "http://h/a/b", "http://h/a/b/", "http://h/a%20b/c%2Fd", "http://h/x.tar.gz",
         "http://h/.hidden", "http://h/a.", "http://h/a/b.c.d?q=1#f", "http://u:p@h:81/a", "//h/a/b", "/", "/a", "/a/", "/a/b.txt", "a", "a/",
         "a/b.c", "", "x:a/b", "x:/a", "http://h/%C3%A9.txt", "http://h/a//b", "/a%2Eb/c%25.d",
         # names whose last dot is the last or first character, with other dots around
         "http://h/d/archive.tar.", "http://h/a..", "http://h/.a.b.", "http://h/report.v2.", "/x/..b", "http://h/a.b..", "http://h/d//n.t",
         # a suffix that carries escapes (its raw and decoded lengths differ)
         "http://h/f.%D1%82x", "http://h/d/report.a%20b", "/r.%C3%A9", "x.%25y"]
ENC_BASES = ["http://h/dir/a%2fb%20c", "/a%2fb", "http://h/%2f", "http://h/a%2Fb%2fc/d.e", "a%2f%2e/b.c", "http://h/x%2f", "http://h/%2e%2e/a%2fb.t",
             "http://h/a%3fb/c%23d", "http://h/d/%41%2f%42.txt", "/p%2fq/r%2f", "http://h/a%2f%2fb", "x:a%2fb/c"]
SEGS = ["s", "a b", "é", "x.y", ".h", "a.", "%2F", "a%2Fb", "%", "a+b", "a;b=c", ":", "@", "~", "a?b", "a#b", "日本", "..a", ".", "..", ""]
SUFFIXES = [".py", ".tar.gz", "", ".a b", ".é", ".%41", ".", "py"]


def push(b):
    return [["push", ["url", b]]]


def run(ctx):
    bases = BASES + gens.structured_urls(ctx.rng, 100 if ctx.quick else 2000)
    wit = [f["witness"] for f in ctx.findings if f.get("witness")]
    progs = {}

    def P(p):
        key = repr(p)
        if key not in progs:
            progs[key] = p
        return key
    cases = []      # (kind, [arg values], [program keys])
    for b in bases:
        cases.append((0, [], [P(push(b))]))
    # stored paths that only encoded=True can produce: lower-case, over-encoded and delimiter escapes inside a segment
    for b in ENC_BASES:
        e = [["push", ["enc", b]]]
        cases.append((0, [], [P(e)]))
        cases.append((0, [], [P(e + [["op", "div", "s"]])]))
        cases.append((0, [], [P(e + [["op", "with_suffix", ".x", False, False]])]))
        cases.append((0, [], [P(e + [["op", "parent"]])]))
        cases.append((4, [".x"], [P(e), P(e + [["op", "with_suffix", ".x", False, False]])]))
    for b in bases[:len(BASES)]:
        for s in SEGS:
            d = push(b) + [["op", "div", s]]
            cases.append((1, [s], [P(push(b)), P(d), P(push(b) + [["op", "joinpath", [s], False]]), P(d + [["op", "parent"]])]))
            cases.append((0, [], [P(d)]))
            w = push(b) + [["op", "with_name", s, False, False]]
            cases.append((3, [s], [P(push(b)), P(w), P(w + [["op", "parent"]]), P(push(b) + [["op", "parent"]])]))
            cases.append((0, [], [P(w)]))
        for a in SEGS[: (8 if ctx.quick else len(SEGS))]:
            for c in SEGS[: (8 if ctx.quick else len(SEGS))]:
                cases.append((2, [a, c], [P(push(b) + [["op", "joinpath", [a, c], False]]),
                                          P(push(b) + [["op", "joinpath", [a], False], ["op", "joinpath", [c], False]]),
                                          P(push(b) + [["op", "div", a + "/" + c]])]))
        # the same argument more than once (the same object for the implementation), with and without a trailing slash
        for a, c in (("x/", "x/"), ("", ""), ("s", "s"), ("x/", "b"), ("", "a")):
            for rep in ([a, c, a], [a, a], [c, a, c, a]):
                chained = push(b)
                for seg in rep:
                    chained = chained + [["op", "joinpath", [seg], False]]
                cases.append((5, [], [P(push(b) + [["op", "joinpath", rep, False]]), P(chained)]))
        for x in SUFFIXES:
            cases.append((4, [x], [P(push(b)), P(push(b) + [["op", "with_suffix", x, False, False]])]))
            cases.append((0, [], [P(push(b) + [["op", "with_suffix", x, False, False]])]))
    keys = list(progs)
    outs = suites.observe(ctx, "C13-programs", [progs[k] for k in keys], profile=2,
                          classes={"cases": len(cases)})
    idx = {k: i for i, k in enumerate(keys)}
    for be in suites.backends(outs):
        args = [" ".join([enc(kind)] + [enc(a) for a in av] + [outs[be][idx[k]] for k in pk]) for kind, av, pk in cases]
        ok = core.eval_pred(ctx, "c13_pred", args)
        core.record_failures(ctx, "C13-programs", "c13_pred", ok,
                             lambda m, be=be: {"backend": be, "kind": cases[m][0], "args": cases[m][1],
                                               "programs": [progs[k] for k in cases[m][2]],
                                               "impl": [outs[be][idx[k]][:600] for k in cases[m][2]]},
                             kf=core.kf_list(ctx), arglines=args)
