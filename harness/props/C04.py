"""C04 - already-canonical URLs are left untouched."""
import core
import gens
from proto import enc

TRUSTED_BASE = [
    "Coq 8.16.1 kernel (coqc); vm_compute only for the finite policy tables (128 x 8 literal table, 256 x 9 decode table); no axioms",
    "models coq/Model/Quoter.v, Url.v validated by correspondence (both backends)",
    "Spec/QuoteSpec.v canon: the canonical-text predicate of the theorems; the same extracted predicate filters the generated inputs",
    "URL-level side conditions of the statement (no default port, no dot segment / rooted path under an authority, no '//' or first-segment ':' without one) are applied by harness/gens.py:canonical_side_conditions",
    "extraction (ExtrOcamlBasic only), ocaml/driver*.ml, harness",
]
ASSUMPTIONS = ["source-to-model tie is differential testing; the URL-level composition (canonical tuple -> str(URL(s)) == s) is validated by the generated inputs, the component level is proved"]
RULE = ("component level: all strings of length <= L over the 16-symbol class alphabet and random mixed strings x 4 requoters, "
        "predicate c04_quote_pred (canonical input comes back unchanged) on the implementation's output; URL level: candidate "
        "tuples assembled from literal/escape atoms, kept when every component satisfies the extracted canon predicate and the "
        "side conditions; predicate str(URL(s)) == s; distinct = distinct string; non-trivial = contains an escape")


def twins(s):
    """other spellings around the same path?query#fragment"""
    import re
    m = re.match(r"^(?:([A-Za-z][A-Za-z0-9+.-]*):)?(?://([^/?#]*))?(.*)$", s, re.S)
    sc, auth, rest = m.group(1), m.group(2), m.group(3)
    out = []
    if not rest.startswith("/"):
        return out
    if auth is None:
        out.append("http://twin.example" + rest)
    else:
        out.append(rest)
        out.append("x:" + rest)
    return [t for t in out if t != s and not t.startswith("//")]


def run(ctx):
    L = 3 if ctx.quick else 4
    strs = list(gens.all_strings(gens.SQ_ALPHABET, L)) + list(gens.escapes_in_context())
    strs += gens.random_mixed(ctx.rng, 2000 if ctx.quick else 30000)
    reqs = [("quote", [i, s]) for i in (1, 3, 5, 8) for s in strs]
    core.check_suite(ctx, "SQ-canonical-unchanged", reqs, split=True, pred="c04_quote_pred", nontrivial=lambda rs: set())
    # URL level
    cands = gens.canon_candidates(ctx.rng, 40000 if ctx.quick else 400000)
    comp = []   # (quoter index, text) for every non-empty component
    for t in cands:
        sc, user, password, host, port, path, q, f = t
        comp.append([(1, x) for x in (user, password) if x] + [(3, path)] * bool(path) + [(5, q)] * bool(q) + [(8, f)] * bool(f))
    flat = sorted({c for cs in comp for c in cs})
    res = dict(zip(flat, core.eval_pred(ctx, "canon_n", [enc(i) + " " + enc(x) for i, x in flat])))
    keep = [t for t, cs in zip(cands, comp) if all(res[c] for c in cs) and gens.canonical_side_conditions(t)]
    urls = sorted({gens.compose_canonical(t) for t in keep})
    ctx.histogram = {"candidates": len(cands), "canonical": len(keep), "distinct_urls": len(urls)}
    urls = [f["witness"][0][1][1] for f in ctx.findings if f.get("witness")] + urls
    # every canonical URL is parsed right after its twins: the same path, query and fragment under another authority,
    # without one and under another scheme (whatever the parser remembers about one spelling must not leak into the next)
    reqs, at = [], []
    for s in urls:
        for tw in twins(s):
            reqs.append(("observe", [0, [["push", ["url", tw]]]]))
        at.append(len(reqs))
        reqs.append(("observe", [0, [["push", ["url", s]]]]))
    allouts = core.check_suite(ctx, "SU-canonical-urls", reqs, split=True,
                               nontrivial=lambda rs: {repr(a) for _, a in rs if "%" in repr(a)},
                               classes=ctx.histogram)
    outs = {k: [v[i] for i in at] for k, v in allouts.items()}
    for k in [k for k in outs if k != "model"]:
        args = [enc(s) + " " + outs[k][i] for i, s in enumerate(urls)]
        ok = core.eval_pred(ctx, "c04_url_pred", args)
        core.record_failures(ctx, "SU-canonical-urls", "c04_url_pred", ok,
                             lambda m, k=k: {"backend": k, "input": urls[m], "impl": outs[k][m]},
                             kf=core.kf_list(ctx), arglines=args)
