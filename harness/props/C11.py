"""C11 - every modifier changes only its own component."""
import itertools

import core
import gens
from proto import enc

TRUSTED_BASE = [
    "Coq 8.16.1 kernel (coqc); vm_compute for the port sweep 0..65535 inside split_make_netloc; no axioms",
    "model coq/Model/Url.v (all modifiers) validated by correspondence (both backends); oracles: idna, ipaddress, NFKC",
    "extraction (ExtrOcamlBasic only), ocaml/driver*.ml, harness",
]
ASSUMPTIONS = ["source-to-model tie is differential testing; the theorems are about the stored strings and the lazily re-split authority, "
               "the check applies the executable frame predicate c11_pred to the implementation's accessors before/after each modifier"]
RULE = ("base matrix: 4 schemes x 7 userinfo shapes (absent/empty/escaped user and password) x 4 host kinds (name, IPv4, IPv6, "
        "IPv6+zone) x 6 port spellings x 4 paths x query x fragment = 10752 bases (quick: every 17th) x 47 modifier calls incl. "
        "None arguments and keep_query/keep_fragment combinations; the same calls on receivers whose authority parts are not pre-computed "
        "(unpickled), on authorities with an empty host, and on verbatim (encoded=True) receivers with zero-padded or empty ports; distinct = distinct "
        "(base, modifier); non-trivial = the modifier returned a URL")

SCHEMES = ["http", "https", "x", ""]
USERINFO = ["", "u@", "u:p@", "u:@", ":p@", "u%40x:p%3Ay@", "U:P@"]
HOSTS = ["example.com", "127.0.0.1", "[::1]", "[fe80::1%25eth0]", "va.gov", "a.b."]   # v<hex>. looks like IPvFuture; trailing dot
PORTS = ["", ":80", ":443", ":8080", ":0", ":65535"]
PATHS = ["", "/", "/a/b.txt", "/a%2Fb/"]
QUERIES = ["", "?a=1&b=2"]
FRAGS = ["", "#f"]


# an authority with userinfo and/or a port but no host (legal outside the schemes that require one)
EMPTY_HOST = ["x://u:p@:8042/p", "//u@:80/x?a=1", "x://:8042/p#f", "//@/x", "foo://user:pw@:8042/p?q=1#frag", "x://u@/a/b.txt"]


VERBATIM = ["http://example.com:0080/p?q=1#f", "http://user:pw@example.com:08080/p", "http://[::1]:0443/p", "http://user:pw@example.com:/p?q=1#f",
            "https://h:00443/", "x://u@h:007/a/b.txt", "http://h:/"]


def ops():
    out = []
    for s in ["https", "HTTP", "x", "ws"]:
        out.append((0, False, False, False, ["op", "with_scheme", s]))
    for x in [None, "u2", "a b", "é:@/"]:
        out.append((1, False, False, x is None, ["op", "with_user", x]))
    for x in [None, "", "p w", "@:/"]:
        out.append((2, False, False, x is None, ["op", "with_password", x]))
    for x in ["h2", "EXAMPLE.org", "::1", "10.0.0.1", "bücher.example"]:
        out.append((3, False, False, False, ["op", "with_host", x]))
    for x in [None, 0, 80, 8080, 65535]:
        out.append((4, False, False, x is None, ["op", "with_port", x]))
    for x in [None, "", "x y", "#"]:
        out.append((5, False, False, x is None, ["op", "with_fragment", x]))
    for name, q in [("with_query", None), ("with_query", "a=1"), ("with_query", ["map", ["k", "v w"], ["n", 1]]),
                    ("extend_query", "z=9"), ("extend_query", None), ("update_query", "a=2"), ("update_query", ["seq", ["b", "x"]]),
                    ("update_query", None)]:
        out.append((6, False, False, False, ["op", name, q]))
    out.append((6, False, False, False, ["op", "without_query_params", ["a"]]))
    out.append((6, False, False, False, ["op", "without_query_params", ["zz"]]))
    for kq, kf in itertools.product([False, True], repeat=2):
        out.append((7, kq, kf, False, ["op", "with_path", "/x y", False, kq, kf]))
        out.append((7, kq, kf, False, ["op", "with_name", "n m", kq, kf]))
        out.append((7, kq, kf, False, ["op", "with_suffix", ".s", kq, kf]))
    out.append((8, False, False, False, ["op", "div", "c d"]))
    out.append((8, False, False, False, ["op", "joinpath", ["a", "b"], False]))
    out.append((8, False, False, False, ["op", "parent"]))
    out.append((9, False, False, False, ["op", "origin"]))
    out.append((10, False, False, False, ["op", "relative"]))
    return out


def run(ctx):
    bases = [(sc + ":" if sc else "") + "//" + ui + h + p + pa + q + f
             for sc, ui, h, p, pa, q, f in itertools.product(SCHEMES, USERINFO, HOSTS, PORTS, PATHS, QUERIES, FRAGS)]
    if ctx.quick:
        bases = bases[ctx.seed % 17::17]
    bases += gens.structured_urls(ctx.rng, 150 if ctx.quick else 3000)
    OPS = ops()
    bases = EMPTY_HOST + bases
    bases = [f["witness"][0][1][1] for f in ctx.findings if f.get("witness")] + bases
    before = core.check_suite(ctx, "C11-bases", [("observe", [0, [["push", ["url", b]]]]) for b in bases], split=True)
    reqs, meta = [], []
    for bi, b in enumerate(bases):
        for kind, kq, kf, isnone, op in OPS:
            reqs.append(("observe", [0, [["push", ["url", b]], op]]))
            meta.append((bi, kind, kq, kf, isnone))
    # the same modifiers on receivers whose authority parts are NOT pre-computed (an unpickled copy has an empty
    # cache: every part is split from the stored authority on first use), including authorities with an empty host
    lazy = [bi for bi in range(len(bases)) if bi % 5 == ctx.seed % 5 or bases[bi] in EMPTY_HOST]
    for bi in lazy:
        for kind, kq, kf, isnone, op in OPS:
            reqs.append(("observe", [0, [["push", ["url", bases[bi]]], ["op", "pickle"], op]]))
            meta.append((bi, kind, kq, kf, isnone))
    # receivers whose authority is stored verbatim (encoded=True) with a port spelled non-canonically or left empty
    enc_before = core.check_suite(ctx, "C11-verbatim-bases", [("observe", [0, [["push", ["enc", b]]]]) for b in VERBATIM], split=True)
    enc_reqs, enc_meta = [], []
    for bi, b in enumerate(VERBATIM):
        for kind, kq, kf, isnone, op in OPS:
            enc_reqs.append(("observe", [0, [["push", ["enc", b]], op]]))
            enc_meta.append((bi, kind, kq, kf, isnone))
    enc_after = core.check_suite(ctx, "C11-verbatim-modifiers", enc_reqs, split=True)
    for k in [k for k in enc_after if k != "model"]:
        args = [" ".join([enc(kind), enc(kq), enc(kf), enc(isnone), enc_before[k][bi], enc_after[k][i]])
                for i, (bi, kind, kq, kf, isnone) in enumerate(enc_meta)]
        ok = core.eval_pred(ctx, "c11_pred", args)
        core.record_failures(ctx, "C11-verbatim-modifiers", "c11_pred", ok,
                             lambda m, k=k: {"backend": k, "base": VERBATIM[enc_meta[m][0]], "program": enc_reqs[m][1][1],
                                             "before": enc_before[k][enc_meta[m][0]], "after": enc_after[k][m]},
                             kf=core.kf_list(ctx), arglines=args)
    after = core.check_suite(ctx, "C11-modifiers", reqs, split=True,
                             nontrivial=lambda rs: {repr(a) for _, a in rs},
                             classes={"bases": len(bases), "modifier_calls_per_base": len(OPS)})
    for k in [k for k in after if k != "model"]:
        args = [" ".join([enc(kind), enc(kq), enc(kf), enc(isnone), before[k][bi], after[k][i]])
                for i, (bi, kind, kq, kf, isnone) in enumerate(meta)]
        ok = core.eval_pred(ctx, "c11_pred", args)
        core.record_failures(ctx, "C11-modifiers", "c11_pred", ok,
                             lambda m, k=k: {"backend": k, "base": bases[meta[m][0]], "modifier": reqs[m][1][1][-1], "program": reqs[m][1][1],
                                             "before": before[k][meta[m][0]], "after": after[k][m]},
                             kf=core.kf_list(ctx), arglines=args)
