"""C14 - join() is RFC 3986 section 5.2 reference resolution."""
import itertools

import core
import gens
import suites

TRUSTED_BASE = [
    "Coq 8.16.1 kernel (coqc); no axioms",
    "Spec/Resolve.v, Spec/Rds.v: my transcription of RFC 3986 5.2.2-5.2.4",
    "model coq/Model/Url.v (join) validated by correspondence (both backends)",
    "extraction (ExtrOcamlBasic only), ocaml/driver*.ml, harness",
]
ASSUMPTIONS = ["source-to-model tie is differential testing; 'defined' query approximated by non-empty (the library cannot represent 'p?')"]
RULE = ("bases x references assembled from the segment alphabet {a, b.c, ., .., '', %2E, %2e%2E, a%2Fb, c%3Fd, e%23f, %25} up to N+N segments "
        "(N=2 quick, 3 thorough), with/without authority, trailing slash, query, fragment, same/other/non-relative scheme, "
        "network-path references; the RFC 3986 5.4 examples; random URL pairs; predicate c14_pred = transform of Spec/Resolve.v; "
        "distinct = distinct (base, reference)")

SEGS = ["a", "b.c", ".", "..", "", "%2E", "%2e%2E", "a%2Fb", "c%3Fd", "e%23f", "%25"]
RFC_REFS = ["g:h", "g", "./g", "g/", "/g", "//g", "?y", "g?y", "#s", "g#s", "g?y#s", ";x", "g;x", "g;x?y#s", "", ".", "./", "..", "../",
            "../g", "../..", "../../", "../../g", "../../../g", "../../../../g", "/./g", "/../g", "g.", ".g", "g..", "..g", "./../g",
            "./g/.", "g/./h", "g/../h", "g;x=1/./y", "g;x=1/../y", "g?y/./x", "g?y/../x", "g#s/./x", "g#s/../x", "http:g"]


def paths(n):
    out = [""]
    for k in range(1, n + 1):
        for combo in itertools.product(SEGS, repeat=k):
            p = "/".join(combo)
            out.append(p)
            out.append("/" + p)
    return out


def run(ctx):
    N = 2 if ctx.quick else 3
    ps = paths(N)
    bases = []
    for p in ps:
        rooted = p.startswith("/") or p == ""
        if rooted:
            bases += ["http://h" + p, "http://u:p@h:81" + p + "?bq#bf", "//h" + p, "x://h" + p]
        bases += ["http:" + p if p.startswith("/") else p, p + "?bq", "https:" + p, "mailto:" + p]
    bases = sorted(set(bases))
    refs = []
    for p in ps:
        refs += [p, p + "?rq", p + "#rf", "http:" + p, "//g" + (p if (p.startswith("/") or not p) else "/" + p), "ftp:" + p]
    refs = sorted(set(refs + RFC_REFS))
    rng = ctx.rng
    pairs = set()
    # exhaustive over a stride of the product in the quick tier, full product in thorough
    allpairs = len(bases) * len(refs)
    # thorough: the N=3 product has ~10^8 pairs; a stride keeps about 400k of them (a different residue per seed)
    stride = 37 if ctx.quick else max(5, allpairs // 400000) | 1
    for n in range(ctx.seed % stride, allpairs, stride):
        pairs.add((bases[n // len(refs)], refs[n % len(refs)]))
    for r in RFC_REFS:
        pairs.add(("http://a/b/c/d;p?q", r))
        pairs.add(("http://a/b/c/d;p?q#f", r))
    # every reference of up to 4 (quick) / 5 segments over {.., ., "", g}, rooted or not, against bases of every depth:
    # climbing above the root followed by empty segments, dot segments in every position
    small = ["..", ".", "", "g"]
    for k in range(1, (4 if ctx.quick else 5) + 1):
        for combo in itertools.product(small, repeat=k):
            r = "/".join(combo)
            for b in ("http://a", "http://a/", "http://a/b", "http://a/b/c", "http://a/b/", "http://a//b", "x:/b/c", "x:b/c"):
                pairs.add((b, r))
                pairs.add((b, "/" + r))
    su = gens.structured_urls(rng, 400 if ctx.quick else 6000)
    for _ in range(1500 if ctx.quick else 30000):
        pairs.add((rng.choice(su), rng.choice(su)))
        pairs.add((rng.choice(bases), rng.choice(su)))
    pairs = sorted(pairs)
    for f in ctx.findings:
        if f.get("witness"):
            w = f["witness"]
            pairs.insert(0, (w[0][1][1], w[1][1][1]))
    urls = sorted({u for p in pairs for u in p})
    uo = suites.observe(ctx, "C14-operands", [[["push", ["url", u]]] for u in urls], profile=0)
    ui = {u: i for i, u in enumerate(urls)}
    jo = suites.observe(ctx, "C14-join", [[["push", ["url", b]], ["push", ["url", r]], ["join"]] for b, r in pairs], profile=0,
                        classes={"bases": len(bases), "references": len(refs), "pairs": len(pairs)})
    for k in suites.backends(jo):
        args = [" ".join([uo[k][ui[b]], uo[k][ui[r]], jo[k][i]]) for i, (b, r) in enumerate(pairs)]
        ok = core.eval_pred(ctx, "c14_pred", args)
        core.record_failures(ctx, "C14-join", "c14_pred", ok,
                             lambda m, k=k: {"backend": k, "base": pairs[m][0], "ref": pairs[m][1], "join": jo[k][m][:500]},
                             kf=core.kf_list(ctx), arglines=args)
