"""C20 - URLs and caches are safe to share between threads."""
import re

import core
import gens
import suites
from proto import dec, enc

TRUSTED_BASE = [
    "Coq 8.16.1 kernel (coqc); no axioms",
    "Model/Cache.v: threads as interleavings of atomic lookup / insert actions plus cache_clear / cache_configure; the atomicity "
    "granularity (GIL build; dict, lru_cache and one C-extension call are atomic) is an assumption, exercised by the stress runs",
    "static scan of the re-cythonized C source for GIL release (Py_BEGIN_ALLOW_THREADS, PyEval_SaveThread, nogil)",
    "the extracted pure model gives the sequential reference results",
    "extraction (ExtrOcamlBasic only), ocaml/driver*.ml, harness",
]
ASSUMPTIONS = ["the schedule quantifier is proved for the model's atomicity granularity only; real schedules are sampled by stress runs"]
RULE = ("N threads (8 quick, 8 and 32 thorough) with sys.setswitchinterval(1e-6) run the same programs (URL construction with escapes "
        "in every component, non-ASCII, IDN hosts, >8 KiB paths; accessor reads on a shared pool of URL objects; modifiers; join) against "
        "the shared module caches while a disturber thread calls cache_clear()/cache_configure(); both backends; every thread's "
        "observation of every program must equal the extracted model's sequential observation; derivation from a shared fresh object by pairs of "
        "threads using the same modifier, and one modifier hammered from four threads on one object (results equal the sequential one, nothing "
        "leaks); distinct = distinct program")


def programs(ctx):
    rng = ctx.rng
    progs = []
    texts = ["Ж" * 12, "é" * 40, "日本語" * 10, "a b" * 30, "%C3%A9" * 20, "x" * 9000 + " é", "\U0001f600" * 8, "a/b?c#d", "k=v&k2=v2"]
    for i in range(60 if ctx.quick else 300):
        t = rng.choice(texts)
        t2 = rng.choice(texts)
        h = rng.choice(["example.com", "bücher.example", "例え.テスト", "[::1]", "127.0.0.1", "EXAMPLE.COM"])
        progs.append([["push", ["url", f"http://u{i}:{t.replace('/', '').replace('?', '').replace('#', '')}@{h}/t{i}/{t.replace('?', '').replace('#', '')}?{t2.replace('#', '')}={i}#{t}"]]])
        progs.append([["push", ["build", "http", "", t[:5], None, h.strip("[]"), None, "/" + t2.replace("?", ""), ["map", [t[:7], t2[:9]]], "", t[:3], False]]])
        progs.append([["push", ["url", f"http://{h}/p{i}"]], ["op", "div", t.replace("/", "")[:50]], ["op", "with_query", ["map", ["k", t2[:20]]]]])
        progs.append([["push", ["url", f"http://{h}/a/b{i}?x=1"]], ["push", ["url", "../" + t2.replace("?", "").replace("#", "")[:30]]], ["join"]])
    progs += [p for p in gens.random_programs(rng, 150 if ctx.quick else 1500, maxops=3) if "\\ud" not in repr(p)]
    return progs


DERIVE_OPS = [["op", "with_query", ["map", ["k", "v w"]]], ["op", "with_path", "/n w", False, True, True], ["op", "with_fragment", "fr é"],
              ["op", "div", "seg é"], ["op", "with_host", "other.example"], ["op", "with_port", 8081], ["op", "with_user", "us er"],
              ["op", "update_query", "a=b"], ["op", "extend_query", "z=1"], ["op", "with_name", "nm.txt", False, False],
              ["op", "parent"], ["op", "origin"], ["op", "with_scheme", "https"], ["op", "with_suffix", ".x", True, True],
              ["op", "without_query_params", ["a"]], ["op", "with_password", "pw"]]


def derive_suite(ctx):
    """modifiers applied to one shared, freshly built URL while other threads read it for the
    first time: every thread must see the sequential result of the extracted model"""
    rng = ctx.rng
    bases = []
    for i in range(150 if ctx.quick else 600):
        h = rng.choice(["example.com", "bücher.example", "[::1]", "127.0.0.1", "EXAMPLE.COM", "h"])
        ui = rng.choice(["", "u@", "u:p@", "us%20er:p%40w@"])
        port = rng.choice(["", ":8080", ":80"])
        bases.append([["push", ["url", f"http://{ui}{h}{port}/d{i}/é x/f{i}.tar.gz?a={i}&b=é#fr{i}"]]])
    nthreads, rounds = (8, 4) if ctx.quick else (16, 10)
    ops = DERIVE_OPS
    want = {}
    for k in (("py", "c") if ctx.c_ok else ("py",)):
        progs = []
        for i, b in enumerate(bases):
            for t in range(nthreads):
                progs.append(b + [ops[(t // 4 + i) % len(ops)]] if t % 2 == 0 else b)
        want[k] = core.run_sharded("model", ctx.overlay, [core.call_line("observe@" + k, 2, p) for p in progs])
    res = core.run_all(ctx, [core.call_line("threads_derive", bases, ops, 2, nthreads, rounds, ctx.seed)], kinds=("py", "c"))
    name = "C20-derive-from-shared"
    for k, o in res.items():
        r = dec(o[0])
        ctx.count(name, len(bases) * nthreads * rounds, {repr(b) for b in bases}, hist={"threads": nthreads, "rounds": rounds, "bases": len(bases)})
        if not isinstance(r, list):
            ctx.violation(kind="predicate-failure", suite=name, backend=k, predicate="thread run completed", impl=str(r)[:500])
            continue
        bad = 0
        for i, row in enumerate(r):
            for t, v in enumerate(row):
                if enc(v) != want[k][i * nthreads + t]:
                    bad += 1
                    if len(ctx.violations) < 20:
                        ctx.violation(kind="predicate-failure", suite=name, backend=k,
                                      predicate="result of a modifier on (or a read of) a shared fresh URL == sequential result of the extracted model",
                                      thread=t, base=bases[i], op=(ops[(t // 4 + i) % len(ops)] if t % 2 == 0 else "read all accessors"),
                                      impl=core.shorten(v, 1200), model=core.shorten(core.safe_dec(want[k][i * nthreads + t]), 1200))
        ctx.suites[name]["predicate_failures"] = ctx.suites[name].get("predicate_failures", 0) + bad
        ctx.suites[name]["predicate"] = "thread result == model"


    # the same modifier applied to the same object by several threads at once, many times over: whatever they get back
    # (possibly one object shared through the construction caches) reads like the sequential result, and nothing leaks
    hot_bases = [[["push", ["url", "http://u:p@example.com:8080/a/b.txt?x=1&a=2#f"]]], [["push", ["url", "http://example.com/p"]]],
                 [["push", ["url", "//h/x"]]], [["push", ["enc", "http://example.com.:0080/q"]]]]
    hot = core.run_all(ctx, [core.call_line("threads_shared_result", hot_bases[: (2 if ctx.quick else 4)], ops, 80 if ctx.quick else 1500, 4, ctx.seed)], kinds=("py", "c"))
    from proto import Exn
    n = 0
    for k, o in hot.items():
        rows = dec(o[0])
        if not isinstance(rows, list):
            ctx.violation(kind="predicate-failure", suite="C20-shared-result", backend=k, predicate="run completed", impl=str(rows)[:300])
            continue
        for idx, row in enumerate(rows):
            ref, res = row
            n += len(res)
            for t, v in enumerate(res):
                if v != ref and len(ctx.violations) < 20:
                    ctx.violation(kind="predicate-failure", suite="C20-shared-result", backend=k,
                                  predicate="a modifier applied concurrently to one object gives every thread the sequential result",
                                  base=hot_bases[idx // len(ops)], op=ops[idx % len(ops)], thread=t,
                                  impl=core.shorten(v, 600), sequential=core.shorten(ref, 600))
    ctx.count("C20-shared-result", n, {"shared-result"}, hist={"bases": len(hot_bases), "ops": len(ops)})

def gil_scan(ctx):
    import os
    src = os.path.join(ctx.overlay, "yarl", "_quoting_c.c")
    if not os.path.exists(src):
        return None
    text = open(src, errors="replace").read()
    # the generated module body, not Cython's utility code for unused features
    hits = [m for m in ("Py_BEGIN_ALLOW_THREADS", "PyEval_SaveThread(") if re.search(r"^\s+" + re.escape(m), text, re.M)]
    pyx = open(os.path.join(ctx.overlay, "yarl", "_quoting_c.pyx")).read()
    if re.search(r"\bnogil\b", pyx):
        hits.append("nogil in _quoting_c.pyx")
    return hits


def run(ctx):
    progs = programs(ctx)
    model = {"py": core.run_sharded("model", ctx.overlay, [core.call_line("observe@py", 2, p) for p in progs])}
    if ctx.c_ok:
        model["c"] = core.run_sharded("model", ctx.overlay, [core.call_line("observe@c", 2, p) for p in progs])
    configs = [(8, 2)] if ctx.quick else [(8, 4), (32, 2), (2, 8)]
    for nthreads, rounds in configs:
        line = core.call_line("threads_run", progs, 2, nthreads, rounds, ctx.seed)
        res = core.run_all(ctx, [line], kinds=("py", "c"))
        for k, o in res.items():
            r = dec(o[0])
            name = f"C20-threads-{nthreads}"
            ctx.count(name, len(progs) * nthreads * rounds, {repr(p) for p in progs}, hist={"threads": nthreads, "rounds": rounds, "programs": len(progs)})
            if not isinstance(r, list):
                ctx.violation(kind="predicate-failure", suite=name, backend=k, predicate="thread run completed", impl=str(r)[:500])
                continue
            bad = 0
            for tid, lst in enumerate(r):
                for i, v in enumerate(lst):
                    if enc(v) != model[k][i]:
                        bad += 1
                        if len(ctx.violations) < 20:
                            ctx.violation(kind="predicate-failure", suite=name, backend=k,
                                          predicate="thread result == sequential result of the extracted model",
                                          thread=tid, program=progs[i] if len(repr(progs[i])) < 1500 else repr(progs[i])[:1500],
                                          impl=core.shorten(v, 1200), model=core.shorten(core.safe_dec(model[k][i]), 1200))
            ctx.suites[name]["predicate_failures"] = ctx.suites[name].get("predicate_failures", 0) + bad
            ctx.suites[name]["predicate"] = "thread result == model"
    derive_suite(ctx)
    hits = gil_scan(ctx)
    ctx.count("C20-gil-scan", 1, {"scan"})
    if hits:
        ctx.violation(kind="predicate-failure", suite="C20-gil-scan", predicate="the compiled quoter never releases the GIL",
                      impl=", ".join(hits))
