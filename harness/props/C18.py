"""C18 - human_repr() is readable and round-trips."""
import core
import gens
import suites
from proto import dec, enc

TRUSTED_BASE = [
    "Coq 8.16.1 kernel (coqc); vm_compute for the 'delimiter never inside an escape' table (11 x 256) and for the finite side "
    "conditions of the component round trip (positions_ok: 4 positions x 128 ASCII characters over the regenerated quoter and "
    "isprintable tables; escapes_printable); no axioms",
    "str.isprintable as a range table regenerated from the running interpreter (coq/Generated/Tables.v)",
    "models coq/Model/Url.v (human_repr, human_quote), Host.v (IDNA decode oracle) validated by correspondence",
    "extraction (ExtrOcamlBasic only), ocaml/driver*.ml, harness",
]
ASSUMPTIONS = ["source-to-model tie is differential testing; the round trip is proved per component (user, password, path, fragment, whole "
               "query) for every text; the URL-level composition (host, netloc assembly, split) is checked, not proved"]
RULE = ("absolute URLs built with URL.build from decoded components: user, password, path segments, query keys/values and fragment drawn "
        "from 70 texts (every reserved delimiter, '%', escapes-looking text, C0/C1 controls, soft hyphen, ZWSP, bidi controls, NBSP, "
        "non-BMP, combining marks) x IDN/IPv4/IPv6 hosts x optional port; second stage parses u.human_repr(); predicate c18_pred "
        "(five compared parts equal; every escape shown decodes to '%', a delimiter or a non-printable character); distinct = distinct build")

TEXTS = [t for t in gens.TEXTS if "\ud800" not in t] + [
    "a%2Fb", "%2F", "%25", "100%", "a+b c", "k&v=w;x", "é/ü", "\U0001f600", "#?[]@:!$&'()*+,;=", "a\\b", "\x7f", "\xad", "​", "‮",
    "\xa0", " ", "é", "", "\U0010ffff", "\x85", "dom/joe​", "a:b@c", "[x]", "a?b#c", "ｆｕｌｌ", "a／b", "℀", "Ⅷ", "ß", "İ"]
HOSTS = ["example.com", "bücher.example", "例え.テスト", "xn--bcher-kva.example", "127.0.0.1", "::1", "2001:db8::1", "fe80::1%eth0", "h",
         # IDN labels whose decoded form holds characters that are not printable for str.isprintable(): the joiners that IDNA 2008
         # CONTEXTJ admits (ZWNJ after a Persian letter, ZWJ after a virama) - the host is shown decoded, never escaped
         "\u0646\u0627\u0645\u0647\u200c\u0627\u06cc.com", "\u0915\u094d\u200d\u0937.com", "xn--mgba3gch31f060k.com", "xn--11b2ezcw70k.com"]


def run(ctx):
    rng = ctx.rng
    progs = []

    def b(user=None, password=None, host="example.com", port=None, path="", query=None, fragment=""):
        return [["push", ["build", "http", "", user, password, host, port, path, query, "", fragment, False]]]
    for t in TEXTS:
        progs += [b(user=t), b(user="u", password=t), b(path="/" + t), b(path="/a/" + t + "/b"), b(fragment=t),
                  b(query=["map", [t, "v"]]), b(query=["map", ["k", t]]), b(query=["seq", [t, t], ["k", "v"]])]
    for h in HOSTS:
        for port in (None, 8080):
            progs.append(b(host=h, port=port, user="ü", path="/é", fragment="ф"))
            progs.append(b(host=h, port=port, path="/a b", query=["map", ["x", "1"]]))
    for _ in range(1500 if ctx.quick else 40000):
        t = lambda: rng.choice(TEXTS)  # noqa: E731
        progs.append(b(user=rng.choice([None, t()]), password=rng.choice([None, t()]) if rng.random() < 0.5 else None,
                       host=rng.choice(HOSTS), port=rng.choice([None, 80, 8080]), path="/" + "/".join(t() for _ in range(rng.randint(0, 3))),
                       query=rng.choice([None, ["map", [t(), t()]], ["seq", [t(), t()], [t(), t()]]]), fragment=rng.choice(["", t()])))
    progs = [f["witness"] for f in ctx.findings if f.get("witness")] + progs
    outs = suites.observe(ctx, "C18-built", progs, profile=2)

    def reparse(k, i):
        if not outs[k][i].startswith("["):
            return None
        h = dec(outs[k][i])[35]
        return [["push", ["url", h]]] if isinstance(h, str) else None
    st2 = suites.second_stage(ctx, "C18-reparse", outs, reparse)
    suites.apply_pred(ctx, "C18-reparse", "c18_pred", outs,
                      lambda k, i: (outs[k][i] + " " + st2[k][i]) if i in st2[k] else (outs[k][i] + " EOtherError" if outs[k][i].startswith("[") else None),
                      lambda k, i: {"program": progs[i], "first": outs[k][i][:1500], "reparsed": (st2[k].get(i) or "")[:800]},
                      kf=core.kf_list(ctx))
