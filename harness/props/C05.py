"""C05 - pure-Python and compiled quoters are interchangeable."""
import core
import gens

TRUSTED_BASE = [
    "Coq 8.16.1 kernel (coqc); vm_compute used for finite table sweeps only; no native_compute",
    "axioms: none",
    "hand-written models coq/Model/Quoter.v, Unquoter.v of yarl/_quoting_py.py and _quoting_c.pyx: validated, not proved, by the three-way correspondence below",
    "CPython's UTF-8 codec (modelled in Base/Utf8.v), memcpy/realloc semantics of the Writer",
    "extraction (ExtrOcamlBasic only), ocaml/driver*.ml, harness",
]
ASSUMPTIONS = ["source-to-model tie is differential testing; generators listed under coverage.suites"]
RULE = ("all strings of length <= L over a 16-symbol alphabet with one representative per proof class "
        "(L=3 quick, 4 thorough) x 9 quoters; single code points; %XY escapes in context; unquoter token "
        "strings of length <= 2 (quick) / 3 (thorough) x 4 unquoters; random mixed strings; strings whose output "
        "crosses the 8 KiB growth boundaries; distinct = distinct (config, string); non-trivial = result differs "
        "from the input")

NQ, NU = 9, 4


def run(ctx):
    L = 3 if ctx.quick else 4
    strs = list(gens.all_strings(gens.SQ_ALPHABET, L))
    strs += gens.single_codepoints(not ctx.quick)
    strs += list(gens.escapes_in_context())
    strs += gens.escape_position_sweep(gens.single_codepoints(False) if ctx.quick else [chr(c) for c in range(0, 0x110000, 7)])
    strs += gens.random_mixed(ctx.rng, 3000 if ctx.quick else 50000)
    reqs = [("quote", [i, s]) for i in range(NQ) for s in strs]
    outs = core.check_suite(ctx, "SQ-quoters", reqs, split=True, cross=True, cross_skip=core.kf_list(ctx), pred="c05_quote_pred",
                            nontrivial=lambda rs: set())
    ustrs = list(gens.unq_strings(2 if ctx.quick else 3))
    ustrs += gens.escape_position_sweep(gens.single_codepoints(False))
    ustrs += gens.random_mixed(ctx.rng, 2000 if ctx.quick else 30000)
    ureqs = [("unquote", [i, s]) for i in range(NU) for s in ustrs]
    core.check_suite(ctx, "SQ-unquoters", ureqs, split=True, cross=True, nontrivial=lambda rs: set())
    big = gens.growth_boundary_strings(ctx.rng, ks=(1, 2) if ctx.quick else (1, 2, 3, 4))
    breqs = [("quote", [i, s]) for i in (1, 4) for s in big]
    single = gens.single_change_at_boundary(ks=(1, 2) if ctx.quick else (1, 2, 3, 4))
    breqs += [("quote", [i, s]) for i in (1, 4, 6) for s in single]
    core.check_suite(ctx, "SQ-growth-unquoters", [("unquote", [i, s]) for i in range(NU) for s in single[::3]], split=True, cross=True,
                     nontrivial=lambda rs: set())
    core.check_suite(ctx, "SQ-growth-boundaries", breqs, split=True, cross=True, pred="c05_quote_pred", nontrivial=lambda rs: set())
    # URL level: every observation is independent of the backend
    import suites
    progs = suites.standard_programs(ctx, 3000 if ctx.quick else 50000, 3000 if ctx.quick else 50000)
    progs = [p for p in progs if "\\ud" not in repr(p)]      # lone surrogates: component level only (F1b)
    core.check_suite(ctx, "C05-url-level", [("observe", [2, p]) for p in progs], split=True, cross=True,
                     nontrivial=lambda rs: set())
