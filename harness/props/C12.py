"""C12 - query operations implement multi-dict algebra exactly."""
import core
import gens
import suites
from proto import enc

TRUSTED_BASE = [
    "Coq 8.16.1 kernel (coqc); no axioms",
    "models coq/Model/Query.v (_query.py, urllib.parse.parse_qsl with errors='replace', multidict's MultiDict.update) and Url.v validated by correspondence",
    "Preds/P12.v: the list algebra of the property (replace / append / update / filter on decoded pairs)",
    "float rendering (str(float)) is supplied by the harness with the argument; argument immutability is observed on the implementation",
    "extraction (ExtrOcamlBasic only), ocaml/driver*.ml, harness",
    "source translator harness/gen_model.py (Python ast -> Gallina, fail closed): with_query, extend_query, update_query, without_query_params and "
    "yarl/_query.py are re-read from the working tree on every run and proved equal to the model (C12_source_*); trusted: its reading of the "
    "type tests as predicates on the model's sum types (coq/Model/GenQTypes.v), of MultiDict(...).update as Model/Query.md_update, and of the "
    "(*args, **kwargs) pair as the model's single query argument",
]
ASSUMPTIONS = ["source-to-model tie of multidict and parse_qsl is differential testing; Mapping/Sequence type dispatch for exotic argument types is Python glue exercised through dict, MultiDict, list and tuple only"]
RULE = ("existing queries (none, single, repeated keys, blank values, escapes, '+', undecodable escapes) x the four operations x argument "
        "forms None / str / mapping (dict or MultiDict, list values) / sequence of pairs (list or tuple) with str, int, float, bool, None, "
        "inf, nan, bytes, other values; predicate c12_pred on the decoded pairs before/after; the argument object is compared before "
        "and after the call on the implementation; keys that are substrings of one another with single-name removals; distinct = distinct (base, operation, argument)")

BASES = ["http://h/p", "http://h/p?a=1", "http://h/p?a=1&b=2", "http://h/p?a=1&a=2&b=3", "http://h/p?a=1&b=2&a=3&c=&a=4", "http://h/p?a", "http://h/p?=1",
         "http://h/p?a+b=c%20d&%C3%A9=%2B", "http://h/p?a=%FF&b=%26%3D", "/rel?x=1&y=2&x=3", "http://h/?a=1&a=2&b=1&b=old", "http://h/?a=1&b=1&a=2&b=2&c=3&a=3&b=3", "http://h/p?a=1&&b=2&", "http://h/p?k;=1;2", "?a=b=c",
         # existing keys spelled differently from the way the serialiser would spell them (%20 for '+', a literal ';')
         "http://h/p?a%20b=1&x=1&a%20b=2", "http://h/p?k;v=1&x=2", "http://h/p?a%20b=1&a+b=2&k;v=3"]
# keys that are substrings of one another (and the empty key): removing one must not touch the others
BASES += ["http://h/p?page=2&page_size=50&size=3&=e&sort=asc", "http://h/p?a=1&ab=2&abc=3&b=4&=5", "/r?page_size=1&page=2&e=3&pag=4&g=5"]
SUBSTR_NAMES = [["page_size"], ["page"], ["size"], ["abc"], ["ab"], ["pag"], ["page_size", "zz"], ["sort"], ["e"], ["a"]]
FIXED_ARGS = [None, "", "a=1", "a=9&z=8", "b", "a=1&a=2", "x y=z+w", ["map"], ["seq"], ["map", ["a", "n"]], ["map", ["a", ["list", "x", "y"]]],
              ["map", ["a", ["list"]]], ["seq", ["a", "1"], ["a", "2"], ["b", "3"]], ["seq", ["a", "x"], ["b", "y"]], ["map", ["b", "y"], ["a", "x"]], "a=x&b=y", ["map", ["z", 5], ["a", ["float", "1.5"]]],
              ["map", ["a", True]], ["map", ["a", None]], ["map", ["a", ["inf"]]], ["map", ["a", ["nan"]]], ["seq", ["a", ["list", "x"]]],
              ["map", ["z", ["float", "0.0"]]], ["map", ["z", ["float", "-0.0"]]], ["seq", ["z", ["float", "-0.0"]], ["y", ["float", "0.0"]], ["x", 0]],
              ["map", ["a", ["float", "1.0"]], ["b", 1]], ["map", ["a", ["float", "1e+16"]], ["b", 10 ** 16]], ["map", ["a", ["float", "-1.5"]], ["b", -1]],
              ["map", ["k", ["strsub", "1&admin=1"]]], ["seq", ["k", ["strsub", "a b+c;d=é#%"]]], ["map", ["k", ["list", ["strsub", "x y"], "z"]]],
              ["bytes"], ["other"], ["map", ["a", ["other"]]], ["seq", ["x+y", ["list"]], ["a", ["nan"]]], ["map", ["z", True], ["a", ["inf"]]], ["seq", ["a", ["nan"]], ["b", None]], ["seq", ["k&", "v="], ["k+", "v;"], ["", ""]], ["map", ["é", "日本"], ["a b", "c d"]],
              ["map", ["a b", "n"]], ["map", ["k;v", "2"]], ["seq", ["a b", "9"]], "a%20b=7", ["map", ["k;v", ["list", "5", "6"]]], ["seq", ["k;", "8"]]]


def run(ctx):
    rng = ctx.rng
    args = list(FIXED_ARGS) + [gens.rand_qarg(rng) for _ in range(150 if ctx.quick else 3000)]
    bases = BASES + ["http://h/?" + q[1:] for q in gens.QUERIES if q.startswith("?")]
    bases += [f["witness"][0][1][1] for f in ctx.findings if f.get("witness")]
    cases = []   # (kind, qarg, names, base, op)
    for b in bases:
        for q in args:
            for kind, name in ((0, "with_query"), (1, "extend_query"), (2, "update_query")):
                cases.append((kind, q, [], b, ["op", name, q]))
        for names in [[], ["a"], ["a", "b"], ["zz"], ["a b"], ["é", "a"], [""]] + (SUBSTR_NAMES if ("page" in b or "abc" in b) else []):
            cases.append((3, None, names, b, ["op", "without_query_params", names]))
    before = suites.observe(ctx, "C12-bases", [[["push", ["url", b]]] for b in bases], profile=2)
    bi = {b: i for i, b in enumerate(bases)}
    after = suites.observe(ctx, "C12-operations", [[["push", ["url", c[3]]], c[4]] for c in cases], profile=2,
                           classes={"bases": len(bases), "arguments": len(args)})
    for k in suites.backends(after):
        al = [" ".join([enc(kind), enc(q), enc(names), before[k][bi[b]], after[k][i]]) for i, (kind, q, names, b, op) in enumerate(cases)]
        ok = core.eval_pred(ctx, "c12_pred", al)
        core.record_failures(ctx, "C12-operations", "c12_pred", ok,
                             lambda m, k=k: {"backend": k, "base": cases[m][3], "operation": cases[m][4], "before": before[k][bi[cases[m][3]]][:400],
                                             "after": after[k][m][:400]},
                             kf=core.kf_list(ctx), arglines=al)
    # the argument is never mutated (implementation-level probe)
    probe = core.run_all(ctx, [core.call_line("query_arg_immutable", b, q) for b in bases[:6] for q in args[:60]], kinds=("py", "c"))
    for k, o in probe.items():
        ctx.count("C12-argument-immutable", len(o), {"immutable"})
        for i, r in enumerate(o):
            if r != "T":
                ctx.violation(kind="predicate-failure", suite="C12-argument-immutable", backend=k,
                              predicate="argument unchanged after the call", impl=r, index=i)
