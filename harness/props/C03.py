"""C03 - the canonical string is a fixed point of parsing."""
import core
import gens
import suites
from proto import enc

TRUSTED_BASE = [
    "Coq 8.16.1 kernel (coqc); no axioms",
    "models coq/Model/*.v validated by correspondence; oracles: idna, ipaddress, NFKC (real libraries)",
    "extraction (ExtrOcamlBasic only), ocaml/driver*.ml, harness",
]
ASSUMPTIONS = ["source-to-model tie is differential testing",
               "the URL-level fixed point is proved for constructor inputs whose authority is absent or a plain ASCII host name "
               "(no userinfo/port/brackets, not ending in a digit); for userinfo, ports, IP literals and IDNA hosts, and for URLs "
               "reached through build()/modifiers, the layers (parser inverts printing, canonical components re-encode to "
               "themselves, constructor output is canonical) are proved and their composition is checked by c03_pred"]
RULE = ("structured URL strings and random build()/modifier programs in auto-encoding mode; for each result u the second "
        "stage parses str(u) on the same backend and compares string form and the nine components; known-finding classes "
        "(F14 rootless path under an authority scheme, F15 colon in first segment, F17 bracketed non-IPv6, empty authority) "
        "are matched by extracted Coq classifiers; distinct = distinct program; non-trivial = the program's result is a URL")



def run(ctx):
    progs = suites.standard_programs(ctx, 6000 if ctx.quick else 80000, 6000 if ctx.quick else 80000)
    progs = [p for p in progs if suites.is_autoenc(p)]
    # URLs that were used as the SOURCE of another derivation before they are printed and re-parsed
    progs += [p + [["derive"] + ctx.rng.choice(suites.DERIVE_OPS)] for p in progs[:: (4 if ctx.quick else 3)]]
    progs = [f["witness"] for f in ctx.findings if f.get("witness")] + progs
    outs = suites.observe(ctx, "C03-stage1", progs)
    st2 = suites.second_stage(ctx, "C03-stage2-reparse", outs,
                              lambda k, i: (lambda s: [["push", ["url", s]]] if s is not None else None)(suites.obs_str(outs[k][i])))
    suites.apply_pred(ctx, "C03-stage2-reparse", "c03_pred", outs,
                      lambda k, i: (outs[k][i] + " " + st2[k][i]) if i in st2[k] else None,
                      lambda k, i: {"program": progs[i], "first": outs[k][i], "reparsed": st2[k].get(i)},
                      kf=core.kf_list(ctx))
