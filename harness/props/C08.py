"""C08 - URL values are immutable and results do not depend on history."""
import core
import gens
import suites
from proto import dec, enc

TRUSTED_BASE = [
    "Coq 8.16.1 kernel (coqc); no axioms",
    "Model/Cache.v: the caching protocol (lru of any capacity, memo, clear, configure); that functools.lru_cache, dict and propcache "
    "implement it is trusted and exercised by the history runs",
    "models coq/Model/Url.v etc. are pure functions: the model's outputs are the history-free reference",
    "extraction (ExtrOcamlBasic only), ocaml/driver*.ml, harness",
]
ASSUMPTIONS = ["source-to-model tie is differential testing of whole histories (cold vs warm twin runs in fresh processes)"]
RULE = ("the same list of random constructor/modifier/join programs (plus equal URLs reached through different routes, equivalent IDN host "
        "spellings, hash/compare sequences) is run (a) cold: every cache cleared before every program, (b) warm: tiny caches, cache_configure "
        "and cache_clear interleaved, all results kept alive; every result is observed (36 accessors) when created and again at the very end; "
        "neighbouring results are compared with all operators before hashing, after hashing only the left one and at the end; predicates "
        "c08_pred / c08_cmp_pred demand that all of these agree and the extracted pure model must produce the same observations; "
        "every URL is also observed before and after another URL was derived from it (the ['derive', op] instruction: source unchanged); a "
        "model/implementation difference inside the long-lived worker is repeated in a fresh process and reported as a violation when the fresh "
        "outcome equals the model's; join() of ==-but-not-identical pairs in the history routes; distinct = distinct program")

ROUTES = [
    [["push", ["url", "http://example.com/a?b=1#c"]]],
    [["push", ["build", "http", "", None, None, "example.com", None, "/a", None, "b=1", "c", False]]],
    [["push", ["url", "http://EXAMPLE.com:80/a?b=1#c"]]],
    [["push", ["url", "http://example.com"]], ["op", "with_path", "/a", False, False, False], ["op", "with_query", "b=1"], ["op", "with_fragment", "c"]],
    [["push", ["enc", "http://example.com/a?b=1#c"]]],
    [["push", ["url", "http://x/"]], ["op", "with_host", "bücher.example"]],
    [["push", ["url", "http://x/"]], ["op", "with_host", "BÜCHER.example"]],
    [["push", ["url", "http://x/"]], ["op", "with_host", "Bücher.Example"]],
    [["push", ["url", "http://bücher.example/"]]],
    [["push", ["url", "http://xn--bcher-kva.example/"]]],
    [["push", ["url", "http://ｅxample.com/"]]],
    [["push", ["url", "http://example.com/"]]],
    [["push", ["url", "http://h"]]], [["push", ["url", "http://h/"]]], [["push", ["build", "http", "", None, None, "h", None, "", None, "", "", False]]],
    [["push", ["url", "http://h/x"]], ["op", "parent"]],
    [["push", ["url", "http://u:p@h/x?q#f"]], ["op", "pickle"]], [["push", ["url", "http://u:p@h/x?q#f"]]],
    # residue chains: the last text one decoder/quoter sees ends in a truncated escape, the first text it sees
    # for the next URL begins with the missing continuation (name -> user through UNQUOTER, query -> query)
    [["push", ["url", "http://h/x%C3"]]], [["push", ["url", "http://%A9@h/"]]],
    [["push", ["url", "http://h/n%E2%82"]]], [["push", ["url", "http://%ACu@h/"]]],
    [["push", ["url", "http://h/?a=%C3"]]], [["push", ["url", "http://h/?%A9=b"]]],
    [["push", ["url", "http://h/p#f%F0%9F%98"]]], [["push", ["url", "http://%80@h/"]]],
    [["push", ["url", "http://h/100%"]]], [["push", ["url", "http://h/41"]]],
    [["push", ["url", "http://h/?d=50%"]]], [["push", ["url", "http://h/?ab=1"]]],
    # join() of pairs that are == but not identical ('' vs '/' under an authority), in both orders
    [["push", ["url", "http://h.example"]], ["push", ["url", ""]], ["join"]], [["push", ["url", "http://h.example/"]], ["push", ["url", ""]], ["join"]],
    [["push", ["url", "http://a/b"]], ["push", ["url", "https://cdn.example.org"]], ["join"]], [["push", ["url", "http://a/b"]], ["push", ["url", "https://cdn.example.org/"]], ["join"]],
    [["push", ["url", "http://a/b"]], ["push", ["url", "//mirror.example/"]], ["join"]], [["push", ["url", "http://a/b"]], ["push", ["url", "//mirror.example"]], ["join"]],
    [["push", ["url", "http://h.example/"]], ["push", ["url", "?q"]], ["join"]], [["push", ["url", "http://h.example"]], ["push", ["url", "?q"]], ["join"]],
    # the same raw path with and without an authority, in both orders
    [["push", ["url", "/d/./a/../i.html"]]], [["push", ["url", "http://h/d/./a/../i.html"]]], [["push", ["url", "x:/d/./a/../i.html"]]],
    [["push", ["url", "http://h/e/./a/../i.html"]]], [["push", ["url", "/e/./a/../i.html"]]],
]


def run(ctx):
    rng = ctx.rng
    progs = []
    for _ in range(3):
        progs += ROUTES
    progs += gens.random_programs(rng, 700 if ctx.quick else 12000, maxops=3)
    progs += [[["push", ["url", s]]] for s in gens.structured_urls(rng, 500 if ctx.quick else 8000)]
    rng.shuffle(progs)
    progs = ROUTES + progs + ROUTES[::-1]
    # lone surrogates differ between the backends' quoters in one documented class (F1b): not a history matter
    progs = [p for p in progs if "\\ud" not in repr(p)]
    suites.touch_invariance(ctx, "C08-used-intermediates", progs, 500 if ctx.quick else 8000)
    suites.source_invariance(ctx, "C08-source-unchanged", [p for p in progs if "pickle" not in repr(p)], 600 if ctx.quick else 10000)
    chunk = 400
    chunks = [progs[i:i + chunk] for i in range(0, len(progs), chunk)]
    lines_cold = [core.call_line("history_run", c, 2, False) for c in chunks]
    lines_warm = [core.call_line("history_run", c, 2, True) for c in chunks]
    cold = core.run_all(ctx, lines_cold, kinds=("py", "c"))
    warm = core.run_all(ctx, lines_warm, kinds=("py", "c"))
    model = core.run_sharded("model", ctx.overlay, [core.call_line("observe@py", 2, p) for p in progs])
    model_c = core.run_sharded("model", ctx.overlay, [core.call_line("observe@c", 2, p) for p in progs]) if "c" in cold else None
    ctx.count("C08-history", len(progs) * 2 * len(cold), {repr(p) for p in progs},
              hist={"programs": len(progs), "chunks": len(chunks)})
    fresh_budget = [12]
    for k in cold:
        mref = model if k == "py" else model_c
        args, desc, cargs, cdesc = [], [], [], []
        base = 0
        for ci, c in enumerate(chunks):
            rc, rw = dec(cold[k][ci]), dec(warm[k][ci])
            if not (isinstance(rc, list) and isinstance(rw, list)):
                ctx.violation(kind="predicate-failure", suite="C08-history", backend=k, predicate="history run completed",
                              impl=str(rc)[:300] + " / " + str(rw)[:300])
                base += len(c)
                continue
            for i in range(len(c)):
                args.append(" ".join([enc(rc[0][i]), enc(rw[0][i]), enc(rw[1][i])]))
                desc.append(base + i)
                if enc(rw[0][i]) != mref[base + i] and len(ctx.diffs) < 50:
                    # the same call in a FRESH process: if that agrees with the (history-free) model, the outcome inside the
                    # run depended on what preceded it - a violation with a concrete history, not a modelling difference
                    fresh = core.run_all(ctx, [core.call_line("observe", 2, c[i])], kinds=(k,))[k][0] if fresh_budget[0] > 0 else None
                    fresh_budget[0] -= 1
                    if fresh is not None and fresh == mref[base + i]:
                        ctx.violation(kind="predicate-failure", suite="C08-history", backend=k,
                                      predicate="the outcome of a call inside a run equals its outcome in a fresh process",
                                      program=c[i], preceded_by=c[max(0, i - 12):i], impl=enc(rw[0][i])[:600], fresh=fresh[:600])
                    else:
                        ctx.diffs.append({"kind": "correspondence-diff", "suite": "C08-history", "backend": k, "request_repr": core.shorten(c[i]),
                                          "model_repr": core.shorten(core.safe_dec(mref[base + i])), "impl_repr": core.shorten(rw[0][i])})
            for i in range(len(c) - 1):
                cargs.append(" ".join(enc(x[i]) for x in (rc[2], rc[3], rc[4], rw[2], rw[3], rw[4])))
                cdesc.append(base + i)
            base += len(c)
        ok = core.eval_pred(ctx, "c08_pred", args)
        core.record_failures(ctx, "C08-history", "c08_pred", ok,
                             lambda m, k=k: {"backend": k, "program": progs[desc[m]], "cold_warm_again": args[m][:1500]})
        ok = core.eval_pred(ctx, "c08_cmp_pred", cargs)
        core.record_failures(ctx, "C08-history-compare", "c08_cmp_pred", ok,
                             lambda m, k=k: {"backend": k, "programs": [progs[cdesc[m]], progs[cdesc[m] + 1]], "comparisons": cargs[m]})

    # a model/implementation difference found inside a long-lived worker: repeat the same request in a FRESH process;
    # if that agrees with the (history-free) model, the outcome depended on what the worker had done before - a violation
    # with a concrete request, not a modelling difference
    keep = []
    for d in ctx.diffs:
        if d.get("kind") == "correspondence-diff" and d.get("request") and d.get("model") and fresh_budget[0] > 0:
            fresh_budget[0] -= 1
            k = d["backend"]
            fresh = core.run_all(ctx, [d["request"]], kinds=(k,))[k][0]
            if fresh == d["model"]:
                ctx.violation(kind="predicate-failure", suite=d.get("suite"), backend=k,
                              predicate="the outcome of a call inside a long-lived process equals its outcome in a fresh process",
                              request=d.get("request_repr"), impl=str(d.get("impl"))[:600], fresh=fresh[:600])
                continue
        keep.append(d)
    ctx.diffs[:] = keep
