"""C02 - canonicalisation never changes what a URL means."""
import core
import gens
import suites
from proto import enc

TRUSTED_BASE = [
    "Coq 8.16.1 kernel (coqc); no axioms",
    "Spec/Decode.v (items, bytes a text stands for), Spec/Rfc3986Split.v (which text belongs to which component): my transcriptions",
    "models coq/Model/Quoter.v, Url.v validated by correspondence (both backends)",
    "extraction (ExtrOcamlBasic only), ocaml/driver*.ml, harness",
    "source translator harness/gen_model.py (Python ast -> Gallina, fail closed): yarl/_query.py (query_var, the two serialisers, get_str_query) and "
    "encode_url are re-read from the working tree on every run and proved equal to the model (C02_source_*); trusted: its reading of the dynamic "
    "type tests as predicates on the model's sum types (coq/Model/GenQTypes.v)",
]
ASSUMPTIONS = ["source-to-model tie of the quoters is regenerated tables plus differential testing; join() is covered by C14 (exact RFC transform on the encoded components)"]
RULE = ("constructor: URL strings whose user, password, path segments, query parts and fragment are drawn from the 16-symbol quoter class "
        "alphabet (all strings up to length 3 in one component at a time) plus structured and soup URLs; the supplied component text (RFC "
        "decomposition of the cleaned input) and the canonical component must stand for the same bytes with the same delimiter status, "
        "segment and pair boundaries included (c02_pred kind 0); builders and modifiers: decoded texts through build/with_user/with_password/"
        "with_path/with_name/'/'/joinpath/with_fragment/with_query(str and mapping), update_query(escaped str, mapping) and extend_query(mapping) on a receiver "
        "without a query (kind 1); distinct = distinct request")

TEXTS = gens.TEXTS + ["a%2Fb", "%2F", "%25", "100%", "a+b c", "k&v=w;x", "é/ü", "\U0001f600", "#?[]@:!$&'()*+,;=", "a\\b", "\x7f", "x%zzy", "%C3%A9",
                      "\U0010ffff", "a=b=c", "a&b", "+", "%2B", ";", "a;b", "a b+c"] + gens.alias_escapes()[::3]


def build(**kw):
    d = dict(scheme="http", authority="", user=None, password=None, host="h", port=None, path="", query=None, query_string="", fragment="", encoded=False)
    d.update(kw)
    return ["build", d["scheme"], d["authority"], d["user"], d["password"], d["host"], d["port"], d["path"], d["query"], d["query_string"], d["fragment"], d["encoded"]]


def run(ctx):
    rng = ctx.rng
    alpha = [c for c in gens.SQ_ALPHABET if c not in ("/",)] + ["=", ";", "%2F", "%2b", "%3D", "%26", "%3b", "%41", "%c3%a9"]
    comps = [""] + alpha + [a + b for a in alpha for b in alpha] + gens.alias_escapes()
    if not ctx.quick:
        comps += [a + b + c for a in alpha[:14] for b in alpha[:14] for c in alpha[:14]]
    urls = []
    for t in comps:
        ui = t.replace("@", "").replace("?", "").replace("#", "")
        urls.append("http://" + ui + ":" + ui + "@h/x")
        p = t.replace("?", "").replace("#", "")
        urls.append("http://h/" + p + "/s/" + p)
        urls.append("/" + p + "/" + p)
        q = t.replace("#", "")
        urls.append("http://h/p?" + q + "=" + q + "&" + q)
        urls.append("http://h/p#" + t)
    urls += gens.structured_urls(rng, 4000 if ctx.quick else 60000) + gens.soup_urls(rng, 2000 if ctx.quick else 30000)
    urls = sorted(set(urls))
    outs = suites.observe(ctx, "C02-constructor", [[["push", ["url", s]]] for s in urls], profile=0)
    KF = core.kf_list(ctx)
    suites.apply_pred(ctx, "C02-constructor", "c02_pred", outs, lambda k, i: " ".join([enc(0), enc(urls[i]), outs[k][i]]),
                      lambda k, i: {"input": urls[i], "input_codepoints": [ord(c) for c in urls[i]][:200], "impl": outs[k][i][:1200]}, kf=KF)
    cases = []
    base = [["push", ["url", "http://u:p@h/a/b?q=1#f"]]]
    for t in TEXTS:
        cases.append((0, t, "", [["push", build(user=t)]]))
        cases.append((1, t, "", [["push", build(user="u", password=t)]]))
        cases.append((0, t, "", base + [["op", "with_user", t]]))
        cases.append((1, t, "", base + [["op", "with_password", t]]))
        if not t.startswith("/"):
            cases.append((2, "/" + t, "", [["push", build(path="/" + t)]]))
            cases.append((2, "/" + t, "", base + [["op", "with_path", "/" + t, False, False, False]]))
        cases.append((3, t, "", base + [["op", "with_name", t, False, False]]))
        cases.append((3, t, "", base + [["op", "div", t]]))
        cases.append((3, t, "", base + [["op", "joinpath", ["x", t], False]]))
        cases.append((4, t, "", [["push", build(fragment=t)]]))
        cases.append((4, t, "", base + [["op", "with_fragment", t]]))
        if "#" not in t:
            cases.append((5, t, "", base + [["op", "with_query", t]]))
            cases.append((5, t, "", [["push", build(query_string=t)]]))
        for t2 in TEXTS[:: (9 if ctx.quick else 2)]:
            cases.append((6, t, t2, base + [["op", "with_query", ["map", [t, t2]]]]))
            cases.append((6, t, t2, [["push", build(query=["seq", [t, t2]])]]))
    # update_query(str): the supplied string is percent-DEcoded (parse_qsl) before it is re-encoded, whether or not the
    # receiver already has a query; supplied fully escaped so that every delimiter in it is data
    pct = lambda x: "".join("%%%02X" % b for b in x.encode("utf-8", "surrogatepass"))
    noq = [["push", ["url", "http://h/p"]]]
    for t in ("k", "a b", "\u00e9", "a&b", "x=y", "p+q", "50%", "a%26b", "s;t"):
        for t2 in ("v", "a&b", "a%26b", "1+1=2", "\u00e9 \u00fc", "%", ";"):
            cases.append((6, t, t2, noq + [["op", "update_query", pct(t) + "=" + pct(t2)]]))
            cases.append((6, t, t2, noq + [["op", "update_query", ["map", [t, t2]]]]))
            cases.append((6, t, t2, noq + [["op", "extend_query", ["map", [t, t2]]]]))
    code = {"user": 0, "password": 1, "path": 2, "name": 3, "fragment": 4, "query": 5}
    for comp, t, prog in suites.reapply_cases(base, TEXTS + suites.SELF_TEXTS):
        if comp != "query" or "#" not in t:
            cases.append((code[comp], t, "", prog))
    # numbers are supplied as their str(): the '+' of a float exponent is a decoded '+', not a space
    for f in (1e16, 1e20, 1.5e300, -2.5e+17, 1e-7, 0.5, -0.0, 12345678901234567890.0):
        cases.append((6, "k+", str(f), base + [["op", "with_query", ["map", ["k+", ["float", str(f)]]]]]))
        cases.append((6, "k", str(f), [["push", build(query=["seq", ["k", ["float", str(f)]]])]]))
    # the same modifiers on a base whose components all carry escapes: the untargeted ones keep their meaning
    base2 = [["push", ["url", "http://u%40x:p%3Ay@h/a%2Fb/c%20d?k%26=v%3D&x=%2B#f%23%C3%A9"]]]
    fr = []
    for what, t, t2, prog in cases:
        if prog[0] == base[0] and len(prog) == 2:
            fr.append((what, base2 + [prog[1]]))
    b2o = suites.observe(ctx, "C02-untargeted", [base2] + [p for _, p in fr], profile=0)
    suites.apply_pred(ctx, "C02-untargeted", "c02_pred", b2o,
                      lambda k, i: None if i == 0 else " ".join([enc(2), enc(fr[i - 1][0]), b2o[k][0], b2o[k][i]]),
                      lambda k, i: {"what": fr[i - 1][0], "program": fr[i - 1][1], "before": b2o[k][0][:600], "after": b2o[k][i][:600]}, kf=KF)
    ro = suites.observe(ctx, "C02-supplied", [c[3] for c in cases], profile=0)
    suites.apply_pred(ctx, "C02-supplied", "c02_pred", ro,
                      lambda k, i: " ".join([enc(1), enc(cases[i][0]), enc(cases[i][1]), enc(cases[i][2]), ro[k][i]]),
                      lambda k, i: {"what": cases[i][0], "text": cases[i][1], "text2": cases[i][2], "program": cases[i][3], "impl": ro[k][i][:1200]}, kf=KF)
