"""C17 - port semantics: explicit vs default, zero vs absent."""
import core
from proto import enc

TRUSTED_BASE = [
    "Coq 8.16.1 kernel (coqc); no axioms; vm_compute only inside the finite default-table proof",
    "model coq/Model/Parse.v (split_netloc), Url.v (port, explicit_port, is_default_port, __str__, host_port_subcomponent, with_port, build) validated by correspondence",
    "Spec/Ports.v is the default-port table as the property states it",
    "extraction (ExtrOcamlBasic only), ocaml/driver*.ml, harness",
]
ASSUMPTIONS = ["source-to-model tie is differential testing; bool/int typing of the port argument is Python-level glue observed through the implementation only"]
RULE = ("exhaustive: schemes {http,https,ws,wss,ftp,file,x,''} x port texts (absent, empty, 0, 1, 21, 80, 443, 8080, 65535, "
        "65536, 99999, leading zeros, non-digits, signs, unicode digits) x hosts (reg-name, IPv4, IPv6, IPv6+zone) x userinfo "
        "(none, user, user:pass) through the constructor; the same grid through with_port and build with int/None/bool/"
        "negative/huge arguments; the constructor grid again through encoded=True (lazily split authority: an invalid port is rejected by every "
        "accessor on every look, a written default port is elided by str()); distinct = distinct request; non-trivial = port written or argument not None")

SCHEMES = ["http", "https", "ws", "wss", "ftp", "file", "x", ""]
HOSTS = ["h", "example.com", "127.0.0.1", "[::1]", "[fe80::1%25e0]"]
USERINFO = ["", "u@", "u:p@"]
PORT_TEXTS = [None, "", "0", "1", "21", "80", "443", "8080", "65535", "65536", "99999", "080", "0080", "00", "x", "8o", "-1",
              "+1", " 1", "1 ", "1_0", "٣", "１", "4 43", "80:80", "0x50", "1e2", "999999999999999999999",
              # validity is decided by the VALUE: zero-padded spellings of any length
              "008080", "000080", "000000", "0000065535", "0000065536", "00000000000000000443"]
PORT_ARGS = [None, 0, 1, 21, 80, 443, 8080, 65535, 65536, -1, 10 ** 9, True, False]


def run(ctx):
    reqs, meta = [], []
    for sc in SCHEMES:
        for h in HOSTS:
            for ui in USERINFO:
                for pt in PORT_TEXTS:
                    s = (sc + ":" if sc else "") + "//" + ui + h + ("" if pt is None else ":" + pt) + "/x?q#f"
                    reqs.append(("observe", [0, [["push", ["url", s]]]]))
                    meta.append((sc, pt))
    outs = core.check_suite(ctx, "C17-constructor", reqs, split=True, exhaustive=True,
                            nontrivial=lambda rs: {repr(a) for _, a in rs})
    for k in [k for k in outs if k != "model"]:
        args = [" ".join([enc(sc), enc(pt), outs[k][i]]) for i, (sc, pt) in enumerate(meta)]
        ok = core.eval_pred(ctx, "c17_ctor_pred", args)
        core.record_failures(ctx, "C17-constructor", "c17_ctor_pred", ok,
                             lambda m, k=k: {"backend": k, "request": reqs[m][1], "impl": outs[k][m]})
    # the same strings through encoded=True: the authority is split lazily, on first use; an invalid port must be
    # rejected by every accessor on every look (the observation reads them one after the other on one object)
    lreqs = [("observe", [0, [["push", ["enc", r[1][1][0][1][1]]]]]) for r in reqs]
    louts = core.check_suite(ctx, "C17-constructor-encoded", lreqs, split=True, exhaustive=True,
                             nontrivial=lambda rs: {repr(a) for _, a in rs})
    for k in [k for k in louts if k != "model"]:
        args = [" ".join([enc(sc), enc(pt), louts[k][i]]) for i, (sc, pt) in enumerate(meta)]
        ok = core.eval_pred(ctx, "c17_lazy_pred", args)
        core.record_failures(ctx, "C17-constructor-encoded", "c17_lazy_pred", ok,
                             lambda m, k=k: {"backend": k, "request": lreqs[m][1], "impl": louts[k][m]})
    # with_port and build routes
    reqs, meta = [], []
    bases = []
    for sc in SCHEMES:
        for h in HOSTS[:4]:
            for ui in USERINFO:
                for cur in ("", ":80", ":8080", ":0"):
                    bases.append((sc, (sc + ":" if sc else "") + "//" + ui + h + cur + "/x", True))
        bases.append((sc, (sc + ":" if sc and sc not in ("http", "https", "ws", "wss", "ftp") else "") + "/rel/path", False))
    for sc, b, has_auth in bases:
        for p in PORT_ARGS:
            reqs.append(("observe", [0, [["push", ["url", b]], ["op", "with_port", p]]]))
            meta.append((sc if has_auth or not b.startswith("/") else "", p, has_auth, False))
    for sc in SCHEMES:
        for h in ["h", "127.0.0.1", "::1"]:
            for us, pw in ((None, None), ("u", None), ("u", "p")):
                for p in PORT_ARGS:
                    reqs.append(("observe", [0, [["push", ["build", sc, "", us, pw, h, p, "/x", None, "", "", False]]]]))
                    meta.append((sc, p, True, True))
    outs = core.check_suite(ctx, "C17-with_port-build", reqs, split=True, exhaustive=True,
                            nontrivial=lambda rs: {repr(a) for _, a in rs})

    def encp(p):
        if isinstance(p, bool) or p is None:
            return enc(p)
        if p < 0 or p > 2 ** 40:
            return "EOtherError"
        return enc(p)

    for k in [k for k in outs if k != "model"]:
        args = [" ".join([enc(sc), encp(p), enc(ha), enc(br), outs[k][i]]) for i, (sc, p, ha, br) in enumerate(meta)]
        ok = core.eval_pred(ctx, "c17_set_pred", args)
        core.record_failures(ctx, "C17-with_port-build", "c17_set_pred", ok,
                             lambda m, k=k: {"backend": k, "request": reqs[m][1], "impl": outs[k][m]})

    # a scheme change after the source URL has been used (hashed, printed, every accessor read):
    # the result must report the port exactly like a URL constructed with the new scheme
    import suites
    reqs, meta = [], []
    for sc1 in [x for x in SCHEMES if x]:
        for sc2 in [x for x in SCHEMES if x]:
            for h in HOSTS[:4]:
                for ui in USERINFO[:2]:
                    for pt in (None, "0", "21", "80", "443", "8080"):
                        b = sc1 + "://" + ui + h + ("" if pt is None else ":" + pt) + "/x?q#f"
                        for prog in ([["push", ["url", b]], ["touch"], ["op", "with_scheme", sc2]],
                                     [["push", ["url", b]], ["touch"], ["op", "with_scheme", sc2], ["touch"], ["op", "with_scheme", sc1], ["touch"], ["op", "with_scheme", sc2]]):
                            reqs.append(("observe", [0, prog]))
                            meta.append((sc2, pt))
    outs = core.check_suite(ctx, "C17-scheme-change-after-use", reqs, split=True, exhaustive=True,
                            nontrivial=lambda rs: {repr(a) for _, a in rs})
    for k in [k for k in outs if k != "model"]:
        args = [" ".join([enc(sc), enc(pt), outs[k][i]]) for i, (sc, pt) in enumerate(meta)]
        ok = core.eval_pred(ctx, "c17_ctor_pred", args)
        core.record_failures(ctx, "C17-scheme-change-after-use", "c17_ctor_pred", ok,
                             lambda m, k=k: {"backend": k, "request": reqs[m][1], "impl": outs[k][m]})
