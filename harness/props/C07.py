"""C07 - parsing is the RFC 3986 decomposition of the input."""
import core
import gens

TRUSTED_BASE = [
    "Coq 8.16.1 kernel (coqc); no axioms",
    "hand-written model coq/Model/Parse.v, Url.v of yarl/_parse.py, _url.py: validated by the correspondence suites; unsplit_result is "
    "additionally re-translated from the source on every run (harness/gen_model.py, fail closed) and proved equal to the model",
    "oracles: unicodedata NFKC, ipaddress, idna (real libraries consulted by the extracted model)",
    "extraction (ExtrOcamlBasic only), ocaml/driver*.ml, harness",
]
ASSUMPTIONS = ["source-to-model tie is differential testing"]
RULE = ("derived URLs: 10 bases x 31 operations (query operations, modifiers, path operations), with every accessor of the receiver read "
        "first / not read / chained, predicate c07_derived_pred (re-composition, authority split, raw_path_qs); " +
        "every string of length <= L over the delimiter alphabet ': / ? # [ ] @ % a 1 .' (L=4 quick, 5 thorough) "
        "through URL(s) and URL(s, encoded=True), all accessors observed; structured and soup URLs; distinct = "
        "distinct (mode, string); non-trivial = the string contains at least one delimiter")


def push_url(s, enc=False):
    return ["push", ["enc" if enc else "url", s]]


def run(ctx):
    L = 4 if ctx.quick else 5
    strs = list(gens.delimiter_strings(L))
    strs += gens.structured_urls(ctx.rng, 6000 if ctx.quick else 60000)
    strs += gens.soup_urls(ctx.rng, 3000 if ctx.quick else 40000)
    strs += [f["witness"][0][1][1] for f in ctx.findings if f.get("witness")]
    strs += ["foo://user@host:0/p?q#f", "http://u:p@h:0", "//:p@h:0/", "http://u@[::1]:0/", "x://u:@h:00", "http://u@h:65535", "http://@h:1"]
    # characters a Unicode-aware test (case folding, str.isdigit/isalnum, \d, IGNORECASE) takes for ASCII
    # scheme characters, in every position of a would-be scheme; and for digits in the port
    for a in gens.SCHEME_ALIASES:
        strs += [a + "ttp://u:p@h:8/p?q#f", "ht" + a + "p://u:p@h:8/p", "x" + a + ":y", a + ":y", "http" + a + "://h/", "tel" + a + ":12",
                 "http://h:8" + a + "/", "http://h:" + a + "/", "//u:p@h:" + a + "1/p"]
    strs += gens.leading_runs(["http://u:p@h:8/p?q#f", "//h/p", "a:b", "/p?q", "HTTP://H"], 2 if ctx.quick else 3)
    reqs = []
    for s in strs:
        reqs.append(("observe", [2, [push_url(s)]]))
        reqs.append(("observe", [0, [push_url(s, True)]]))
    outs = core.check_suite(ctx, "SU-constructor", reqs, split=True,
                            nontrivial=lambda rs: {repr(a) for _, a in rs})
    from proto import enc
    for k in [k for k in outs if k != "model"]:
        for pred, off in (("c07_auto_pred", 0), ("c07_enc_pred", 1)):
            args = [enc(s) + " " + outs[k][2 * i + off] for i, s in enumerate(strs)]
            ok = core.eval_pred(ctx, pred, args)
            core.record_failures(ctx, "SU-constructor", pred, ok,
                                 lambda m, k=k, off=off: {"backend": k, "input": strs[m], "input_codepoints": [ord(c) for c in strs[m]],
                                                          "mode": "encoded=True" if off else "auto", "impl": outs[k][2 * m + off]},
                                 kf=core.kf_list(ctx), arglines=args)

    # ... "and for every URL the raw accessors re-compose to str(url)": URLs produced by operations as well, each after
    # every accessor of the receiver has been read (so that whatever the receiver has computed could be handed over)
    import suites
    DBASES = ["http://u:p@example.com:8080/search/a.b?q=1&r=2#top", "http://example.com:80/p?q=1", "https://h:443", "//h/x?k=v", "/rel/p?a=1&a=2#f",
              "http://[::1]:81/a/b?x=y", "foo://user@h:0/p/q.tar.gz?z#", "http://h/?a=1&b=2&a=3", "x:/a/b?c", "http://u@h"]
    DOPS = [["op", "with_query", "q=2"], ["op", "with_query", ["map", ["k", "v w"]]], ["op", "with_query", None], ["op", "extend_query", "e=5"],
            ["op", "extend_query", ["map", ["a", "9"]]], ["op", "update_query", "a=7&z=8"], ["op", "update_query", ["map", ["q", "3"]]],
            ["op", "without_query_params", ["a"]], ["op", "without_query_params", ["q", "r"]], ["op", "with_fragment", "g h"], ["op", "with_fragment", None],
            ["op", "with_path", "/new/p", False, False, False], ["op", "with_path", "/kept", False, True, True], ["op", "with_name", "n.txt", False, False],
            ["op", "with_name", "m", True, True], ["op", "with_suffix", ".bak", False, False], ["op", "with_suffix", ".z", True, True],
            ["op", "with_scheme", "https"], ["op", "with_scheme", "http"], ["op", "with_port", 443], ["op", "with_port", None], ["op", "with_port", 80],
            ["op", "with_user", "w"], ["op", "with_user", None], ["op", "with_password", "s"], ["op", "with_host", "other.org"], ["op", "div", "child"],
            ["op", "joinpath", ["a", "b"], False], ["op", "parent"], ["op", "origin"], ["op", "relative"]]
    progs = []
    for b in DBASES:
        for op in DOPS:
            progs.append([["push", ["url", b]], ["touch"], op])
            progs.append([["push", ["url", b]], op])
            progs.append([["push", ["url", b]], ["touch"], op, ["touch"], DOPS[(DOPS.index(op) + 5) % len(DOPS)]])
    douts = suites.observe(ctx, "C07-derived", progs, profile=0, classes={"bases": len(DBASES), "operations": len(DOPS)})
    suites.apply_pred(ctx, "C07-derived", "c07_derived_pred", douts, lambda k, i: douts[k][i],
                      lambda k, i: {"program": progs[i], "impl": douts[k][i][:1200]})
