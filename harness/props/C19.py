"""C19 - failures are reported only as ValueError/TypeError; nothing crashes."""
import core
import gens
import suites
from proto import enc

TRUSTED_BASE = [
    "Coq 8.16.1 kernel (coqc); no axioms",
    "models coq/Model/*.v in a result monad with the Python exception types; validated by correspondence",
    "the allocation-failure clause is exercised on the real compiled extension through a compile-time shim on the "
    "scratch overlay (harness/fault_shim.h); the real allocator is not modelled",
    "extraction (ExtrOcamlBasic only), ocaml/driver*.ml, harness",
]
ASSUMPTIONS = ["source-to-model tie is differential testing; arguments of undocumented types are out of scope"]
RULE = ("malformed stream (delimiter soups, empty brackets, empty hosts with ports, lone delimiters, long inputs) through "
        "both constructor modes with every accessor observed, and random build()/modifier/join programs; predicate: no "
        "exception other than ValueError/TypeError anywhere in the observation, and str() succeeds on every object "
        "returned in auto-encoding mode; the public cache entry points (cache_configure with every kind of documented size, then "
        "use, cache_info, cache_clear, cache_configure()) and integers beyond the range of a double as query values on the implementation only; "
        "escapes whose hex letters differ in case; distinct = distinct program")



def run(ctx):
    rng = ctx.rng
    strs = list(gens.delimiter_strings(3 if ctx.quick else 4))
    strs += gens.soup_urls(rng, 4000 if ctx.quick else 60000)
    strs += ["http://[]/", "http://[", "http://]", "x://:80/", "//:", "//@", "//@:", "http://@/", "http://:@/", "[", "]", "%", ":", "//[::1", "//::1]",
             "http://%aB:%cE@h/%Fd/%eA.%bC?%aB=%Cd&k=%fA#%Ef", "/%aB%cE", "?%Fd", "#%aB",
             "http://[v]/", "http://[v1.]/", "http://[vg.x]/", "http://[1.2.3.4]/", "http://h:" + "9" * 300, "a" * 3000, "%" * 2000,
             "http://" + "a." * 300 + "com/", "/" * 3000, "http://h/" + "../" * 1000, "?" + "&" * 3000, "%41" * 700, "http://h/%2E" * 300]
    # inputs too large for the (deliberately naive) extracted model: implementation only
    huge = ["http://h:" + "9" * 5000, "a" * 200000, "%" * 50000, "http://" + "a." * 5000 + "com/", "/" * 100000,
            "http://h/" + "../" * 30000, "?" + "&" * 100000, "http://h/" + "%C3%A9" * 30000, "#" + "\U0001f600" * 20000]
    progs = [[["push", ["url", s]]] for s in strs] + [[["push", ["enc", s]]] for s in strs]
    progs += gens.random_programs(rng, 8000 if ctx.quick else 100000, maxops=4)
    progs = [f["witness"] for f in ctx.findings if f.get("witness")] + progs
    outs = suites.observe(ctx, "C19-programs", progs, profile=2)
    suites.apply_pred(ctx, "C19-programs", "c19_pred", outs,
                      lambda k, i: enc(suites.is_autoenc(progs[i])) + " " + outs[k][i],
                      lambda k, i: {"program": progs[i] if len(repr(progs[i])) < 2000 else repr(progs[i])[:2000], "impl": outs[k][i][:3000]},
                      kf=core.kf_list(ctx))
    hprogs = [[["push", ["url", s]]] for s in huge] + [[["push", ["enc", s]]] for s in huge]
    houts = core.check_suite(ctx, "C19-huge-impl-only", [("observe", [2, p]) for p in hprogs], kinds=("py", "c"), compare=False)
    suites.apply_pred(ctx, "C19-huge-impl-only", "c19_pred", houts,
                      lambda k, i: enc(suites.is_autoenc(hprogs[i])) + " " + houts[k][i],
                      lambda k, i: {"program": repr(hprogs[i])[:300], "impl": houts[k][i][:1000]})

    # integers of any size are documented query values (rendered by str()); the extracted model's protocol holds
    # machine integers only, so these go to the implementation alone
    big = [2 ** 1024, 10 ** 400, -(10 ** 400), 2 ** 70, -(2 ** 63) - 1, 10 ** 308, 10 ** 309]
    nprogs = []
    for n in big:
        for name in ("with_query", "update_query", "extend_query"):
            nprogs.append([["push", ["url", "http://h/p?a=1"]], ["op", name, ["map", ["k", n]]]])
            nprogs.append([["push", ["url", "http://h/p?a=1"]], ["op", name, ["seq", ["k", n], ["j", ["list", n, 1]]]]])
        nprogs.append([["push", ["build", "http", "", None, None, "h", None, "/p", ["map", ["k", n]], "", "", False]]])
    nouts = core.check_suite(ctx, "C19-big-integers-impl-only", [("observe", [2, p]) for p in nprogs], kinds=("py", "c"), compare=False)
    suites.apply_pred(ctx, "C19-big-integers-impl-only", "c19_pred", nouts,
                      lambda k, i: enc(True) + " " + nouts[k][i],
                      lambda k, i: {"program": repr(nprogs[i])[:300], "impl": nouts[k][i][:600]})

    # the public cache entry points, after cache_configure() with every documented kind of size
    sizes = [None, 0, 1, 2, 256, 100000]
    creqs = [("cache_api_probe", [[a, b, c], t]) for a in sizes for b in sizes for c in sizes
             for t in (("http://b\u00fccher.example:8080/p\u00e4th?q=1",) if (a, b, c) != (0, 0, 0) else ("http://b\u00fccher.example:8080/p\u00e4th?q=1", "http://[::1]/", "/rel"))]
    couts = core.check_suite(ctx, "C19-cache-api-impl-only", creqs, kinds=("py", "c"), compare=False)
    suites.apply_pred(ctx, "C19-cache-api-impl-only", "c19_pred", couts,
                      lambda k, i: enc(False) + " " + couts[k][i],
                      lambda k, i: {"operation": "cache_configure sizes then use, cache_info, cache_clear, cache_configure()", "request": creqs[i][1], "impl": couts[k][i][:1000]})

    # allocation failure inside the quoters (fault injection through _testcapi.set_nomemory;
    # expected outputs come from the extracted model)
    big = ["a" * 20000 + " " * 3000, "\u00e9" * 1500, "%41" * 3000 + "\x00" * 2000, "a" * 8191 + " ", " " * 2731 + "ab"]
    nmax = 40 if ctx.quick else 120
    oreqs = [("quote", [i, s]) for i in (0, 3, 4) for s in big]
    exp = core.run_sharded("model", ctx.overlay, [core.call_line("quote@c", *a) for _, a in oreqs])
    sweeps = core.run_all(ctx, [core.call_line("oom_sweep", a[0], a[1], nmax) for _, a in oreqs], kinds=("py", "c"))
    for k, o in sweeps.items():
        ok = core.eval_pred(ctx, "c19_oom_pred", [exp[i] + " " + o[i] for i in range(len(oreqs))])
        hits = sum(x.count("EMemoryError") for x in o)
        ctx.count("C19-oom-quoters", len(oreqs) * (nmax + 1), {"oom"}, hist={"memory_errors_raised_" + k: hits})
        core.record_failures(ctx, "C19-oom-quoters", "c19_oom_pred", ok,
                             lambda m, k=k, o=o: {"backend": k, "quoter": oreqs[m][1][0], "input_len": len(oreqs[m][1][1]),
                                                  "outcomes": [x[:80] for x in o[m].split(" ")[:nmax + 3]]})
        if k == "c" and hits == 0:
            ctx.notes.append("allocation-fault injection raised no MemoryError on the compiled backend (injection ineffective?)")
