"""C15 - dot segments are removed exactly when an authority is present."""
import itertools

import core
import suites
import gens
from proto import enc

TRUSTED_BASE = [
    "Coq 8.16.1 kernel (coqc); vm_compute only in the non-vacuity example of C15_programs; no native_compute",
    "axioms: none (Print Assumptions: Closed under the global context for every theorem)",
    "yarl/_path.py: re-translated to Gallina from the source on every run by harness/gen_model.py (Python ast, whitelisted "
    "subset, fails closed with a stub) and proved equal to the hand-written model coq/Model/Path.v (C15_source_*); the translator's "
    "reading of the Python subset (list order, pop under suppress(IndexError) = removelast, str indexing guards) is trusted and "
    "cross-checked by the correspondence suites below",
    "model coq/Model/Url.v of the entry points: the constructor (encode_url), build, with_path, _make_child ('/' and joinpath), with_name, with_suffix, parent "
    "and join are ALSO re-translated from yarl/_url.py on every run and proved equal to it (C15_source_with_path, C15_source_make_child, C15_source_build, "
    "C07_source_encode_url, C13_source_*, C14_source_join); split_url is validated, not proved, by the URL-level suite",
    "Spec/Rds.v is my transcription of RFC 3986 5.2.4",
    "extraction (ExtrOcamlBasic only, no Extract Constant/Inductive of my own), ocaml/driver*.ml, OCaml 4.13.1",
    "harness: harness/core.py, impl_worker.py (exceptions compared by type only)",
]
ASSUMPTIONS = [
    "the Python/Cython source is tied to the model by differential testing only",
]
RULE = ("exhaustive: every '/'-joined sequence of <= N segments over the alphabet "
        "{'.', '..', '', 'a', '.a', 'a.', '...', 'b'} with and without leading '/', through "
        "normalize_path (N=6 quick, 7 thorough); random longer sequences; distinct = distinct "
        "request; non-trivial = path contains a dot segment; URL level: every entry point that can put a path under an authority "
        "(constructor incl. empty-host / userinfo / IPv6 authorities, build, with_path, /, joinpath, with_name, with_suffix, parent, join, random "
        "programs) with the 'however produced' predicate kinds of c15_url_pred, each case parsed right after its twins")

SEGS = [".", "..", "", "a", ".a", "a.", "...", "b"]


def paths(maxn):
    for n in range(0, maxn + 1):
        for combo in itertools.product(SEGS, repeat=n):
            yield "/".join(combo)


def has_dot(p):
    return any(s in (".", "..") for s in p.split("/"))


def run(ctx):
    maxn = 5 if ctx.quick else 6
    reqs = []
    for p in paths(maxn):
        reqs.append(("normalize_path", ["/" + p]))
        reqs.append(("normalize_path", [p]))
    # random longer ones
    rng = ctx.rng
    for _ in range(2000 if ctx.quick else 20000):
        n = rng.randint(7, 30)
        p = "/".join(rng.choice(SEGS + ["%2E", "é", "x" * rng.randint(1, 5)]) for _ in range(n))
        reqs.append(("normalize_path", [("/" if rng.random() < 0.7 else "") + p]))
    core.check_suite(ctx, "normalize_path", reqs, pred="c15_np_pred", exhaustive=False,
                     nontrivial=lambda rs: {a[0] for _, a in rs if has_dot(a[0])},
                     classes={"exhaustive_upto_segments": maxn})

    # URL level: every entry point that can put a path under an authority
    N = 3 if ctx.quick else 4
    USEGS = [".", "..", "", "a", ".a", "%2E", "%2e%2E", "b."]
    upaths = ["/".join(c) for n in range(0, N + 1) for c in itertools.product(USEGS, repeat=n)]
    cases = []     # (kind, args..., program)
    for p in upaths:
        if not p.startswith("/"):     # ("//..." would be a network-path reference)
            cases.append((0, ["/" + p], [["push", ["url", "/" + p]]]))          # the same raw path without authority, first
        cases.append((0, ["/" + p], [["push", ["url", "http://h/" + p]]]))
        if not p.startswith("/"):
            cases.append((0, ["/" + p], [["push", ["url", "x:/" + p]]]))        # ... and after
        if not p.startswith("/") and len(p) < 14:
            # an authority is an authority even when its host is empty (userinfo or port only) or it has userinfo and port
            for pre in ("foo://user@/", "//:8080/", "foo://u:p@:8042/", "x://@/", "http://u:p@h:81/", "//[::1]:1/"):
                cases.append((0, ["/" + p], [["push", ["url", pre + p]]]))
        cases.append((0, ["/x/" + p], [["push", ["url", "/x/" + p]]]))          # no authority: kept verbatim
        cases.append((0, ["/y/" + p], [["push", ["url", "x:/y/" + p]]]))
        cases.append((1, ["/" + p], [["push", ["build", "http", "", None, None, "h", None, "/" + p, None, "", "", False]]]))
        cases.append((1, ["/" + p], [["push", ["url", "http://h/x"]], ["op", "with_path", "/" + p, False, False, False]]))
        cases.append((1, [p], [["push", ["url", "http://h/x"]], ["op", "with_path", p, False, False, False]]))
        cases.append((1, ["/z/" + p], [["push", ["url", "/x"]], ["op", "with_path", "/z/" + p, False, False, False]]))
    segsets = [[s] for s in upaths if len(s) < 12][: (250 if ctx.quick else 3000)] + [[a, b] for a in USEGS + ["a/../b", "../c"] for b in USEGS + ["x/./y"]]
    for base in ("http://h", "http://h/", "http://h/a", "http://h/a/", "http://h/a/b", "/a", "a/b"):
        for segs in segsets:
            if any(s.startswith("/") for s in segs):
                continue
            cases.append((2, [base, segs], [["push", ["url", base]], ["op", "joinpath", segs, False]]))
            if len(segs) == 1:
                cases.append((2, [base, segs], [["push", ["url", base]], ["op", "div", segs[0]]]))
    # every other way to write a path under an authority: with_name / with_suffix (names that become a dot
    # segment when the suffix goes), parent, and random operation sequences
    dotted = ["http://h/a/b/..txt", "http://h/a/...tar", "http://h/d/..x", "http://h/.a", "http://h/a/b.c", "http://h/..", "http://h/a/.x."]
    for b in dotted:
        for sfx in ("", ".", ".y", "..", ".tar.gz"):
            cases.append((3, [], [["push", ["url", b]], ["op", "with_suffix", sfx, False, False]]))
        for nm in ("", ".", "..", "...", ".x", "x.", "a/b", "%2E", "%2e%2E"):
            cases.append((3, [], [["push", ["url", b]], ["op", "with_name", nm, False, False]]))
        cases.append((3, [], [["push", ["url", b]], ["op", "parent"]]))
        cases.append((3, [], [["push", ["url", b]], ["op", "with_suffix", "", False, False], ["op", "with_suffix", ".z", False, False]]))
    # join(): whatever the base path (empty, "/", deeper) and however the dots are written in the reference
    for base in ("http://h", "http://h/", "http://h/a/b", "http://h/a/b/", "http://u@h:81", "//h"):
        for ref in ("../a", ".", "./x", "%2E%2E/a", "a/../b", "..", "../..", "a/.", "./", "x/%2e/y", "?q", "#f", ""):
            cases.append((3, [], [["push", ["url", base]], ["push", ["url", ref]], ["join"]]))
            cases.append((3, [], [["push", ["url", base]], ["op", "origin"], ["push", ["url", ref]], ["join"]]))
    for prg in gens.random_programs(ctx.rng, 1500 if ctx.quick else 20000, maxops=4):
        if suites.is_autoenc(prg):
            cases.append((3, [], prg))
    outs = suites.observe(ctx, "C15-entry-points", [c[2] for c in cases], profile=0,
                          classes={"paths": len(upaths), "cases": len(cases)})
    bases = {}
    for k in suites.backends(outs):
        bo = suites.observe(ctx, "C15-bases", [[["push", ["url", b]]] for b in ("http://h", "http://h/", "http://h/a", "http://h/a/", "http://h/a/b", "/a", "a/b")], profile=0)
        break
    from proto import dec
    blist = ["http://h", "http://h/", "http://h/a", "http://h/a/", "http://h/a/b", "/a", "a/b"]

    def argline(k, i):
        kind, a, prog = cases[i]
        if kind == 2:
            raw = dec(bo[k][blist.index(a[0])])[8]
            stored = "" if a[0] == "http://h" else raw     # raw_path shows "/" for the empty path under an authority
            return " ".join([enc(2), enc(stored), enc(a[1]), outs[k][i]])
        if kind == 3:
            return " ".join([enc(3), outs[k][i]])
        return " ".join([enc(kind), enc(a[0]), outs[k][i]])
    suites.apply_pred(ctx, "C15-entry-points", "c15_url_pred", outs, argline,
                      lambda k, i: {"kind": cases[i][0], "args": cases[i][1], "program": cases[i][2], "impl": outs[k][i][:600]},
                      kf=core.kf_list(ctx))
