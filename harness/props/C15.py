"""C15 - dot segments are removed exactly when an authority is present."""
import itertools

import core

TRUSTED_BASE = [
    "Coq 8.16.1 kernel (coqc); vm_compute is not used by the C15 theorems; no native_compute",
    "axioms: none (Print Assumptions: Closed under the global context for every theorem)",
    "hand-written model coq/Model/Path.v of yarl/_path.py: validated, not proved, by the correspondence suites below",
    "Spec/Rds.v is my transcription of RFC 3986 5.2.4",
    "extraction (ExtrOcamlBasic only, no Extract Constant/Inductive of my own), ocaml/driver*.ml, OCaml 4.13.1",
    "harness: harness/core.py, impl_worker.py (exceptions compared by type only)",
]
ASSUMPTIONS = [
    "the Python/Cython source is tied to the model by differential testing only",
]
RULE = ("exhaustive: every '/'-joined sequence of <= N segments over the alphabet "
        "{'.', '..', '', 'a', '.a', 'a.', '...', 'b'} with and without leading '/', through "
        "normalize_path (N=6 quick, 7 thorough); random longer sequences; distinct = distinct "
        "request; non-trivial = path contains a dot segment")

SEGS = [".", "..", "", "a", ".a", "a.", "...", "b"]


def paths(maxn):
    for n in range(0, maxn + 1):
        for combo in itertools.product(SEGS, repeat=n):
            yield "/".join(combo)


def has_dot(p):
    return any(s in (".", "..") for s in p.split("/"))


def run(ctx):
    maxn = 5 if ctx.quick else 6
    reqs = []
    for p in paths(maxn):
        reqs.append(("normalize_path", ["/" + p]))
        reqs.append(("normalize_path", [p]))
    # random longer ones
    rng = ctx.rng
    for _ in range(2000 if ctx.quick else 20000):
        n = rng.randint(7, 30)
        p = "/".join(rng.choice(SEGS + ["%2E", "é", "x" * rng.randint(1, 5)]) for _ in range(n))
        reqs.append(("normalize_path", [("/" if rng.random() < 0.7 else "") + p]))
    core.check_suite(ctx, "normalize_path", reqs, pred="c15_np_pred", exhaustive=False,
                     nontrivial=lambda rs: {a[0] for _, a in rs if has_dot(a[0])},
                     classes={"exhaustive_upto_segments": maxn})
