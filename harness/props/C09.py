"""C09 - eager and lazy component computation agree; pickling is lossless."""
import core
import gens
import suites
from proto import enc

TRUSTED_BASE = [
    "Coq 8.16.1 kernel (coqc); no axioms",
    "model coq/Model/Url.v (encode_url's pre-filled memo, lazy _cache_netloc, __getstate__/__setstate__) validated by correspondence",
    "pickle/copy machinery of CPython is trusted to call __getstate__/__setstate__",
    "extraction (ExtrOcamlBasic only), ocaml/driver*.ml, harness",
]
ASSUMPTIONS = ["source-to-model tie is differential testing"]
RULE = ("structured URL strings, delimiter strings and random programs; each result is observed directly (eager memo) and "
        "through its unpickled twin (lazy), all 36 accessors compared, plus ==, hash and ordering between the two; known "
        "finding F7 matched by the extracted classifier kf_f7; every accessor is also read as the FIRST thing asked of its own fresh "
        "unpickled copy and compared with the original; distinct = distinct program")



def run(ctx):
    progs = suites.standard_programs(ctx, 8000 if ctx.quick else 100000, 4000 if ctx.quick else 60000)
    progs += [[["push", ["url", s]]] for s in gens.delimiter_strings(3 if ctx.quick else 4)]
    progs = [f["witness"] for f in ctx.findings if f.get("witness")] + progs
    outs = suites.observe(ctx, "C09-direct", progs)
    twin = [p + [["op", "pickle"]] for p in progs]
    outs2 = suites.observe(ctx, "C09-unpickled-twin", twin)
    suites.apply_pred(ctx, "C09-unpickled-twin", "c09_pred", outs,
                      lambda k, i: outs[k][i] + " " + outs2[k][i],
                      lambda k, i: {"program": progs[i], "direct": outs[k][i], "twin": outs2[k][i]}, kf=core.kf_list(ctx))
    # every accessor as the FIRST thing asked of a fresh (unpickled) copy: the same value as on the original, whatever
    # the order in which a caller happens to look (implementation against itself)
    fresh = core.check_suite(ctx, "C09-fresh-copy-per-accessor", [("observe_fresh", [2, p]) for p in progs], kinds=("py", "c"), compare=False)
    suites.apply_pred(ctx, "C09-fresh-copy-per-accessor", "c09_pred", outs,
                      lambda k, i: outs[k][i] + " " + fresh[k][i] if outs[k][i].startswith("[") else None,
                      lambda k, i: {"program": progs[i], "direct": outs[k][i], "twin": fresh[k][i]}, kf=core.kf_list(ctx))
    # equality, hash, ordering between original and twin
    ok_idx = [i for i in range(len(progs)) if outs["py"][i].startswith("[")][: (3000 if ctx.quick else 40000)]
    cmps = core.check_suite(ctx, "C09-compare-twin", [("compare", [progs[i], twin[i]]) for i in ok_idx], split=True)
    for k in suites.backends(cmps):
        for n, i in enumerate(ok_idx):
            if cmps[k][n] != "[ T F T F T T ]":
                ctx.violation(kind="predicate-failure", suite="C09-compare-twin", backend=k, predicate="u == twin, hash equal, not < or >",
                              program=progs[i], impl=cmps[k][n])
    # the twin of a value derived from used (hashed, printed, fully read) intermediates
    multi = [p for p in progs if len(p) > 1][: (600 if ctx.quick else 8000)]
    tp = [suites.touched(p) for p in multi]
    cm2 = core.check_suite(ctx, "C09-compare-twin-used", [("compare", [t, t + [["op", "pickle"]]]) for t in tp], split=True)
    for k in suites.backends(cm2):
        for n, t in enumerate(tp):
            if cm2[k][n].startswith("[") and cm2[k][n] != "[ T F T F T T ]":
                ctx.violation(kind="predicate-failure", suite="C09-compare-twin-used", backend=k,
                              predicate="u == twin, hash equal, not < or > (intermediate URLs hashed and read before deriving)",
                              program=t, impl=cm2[k][n])
    # copy / deepcopy (implementation-level probe)
    probe = core.run_all(ctx, [core.call_line("copy_probe", s) for s in ["http://u:p@h:81/a?b#c", "//:77", "a", ""]], kinds=("py", "c"))
    for k, o in probe.items():
        ctx.count("C09-copy", len(o), {"copy"})
        for r in o:
            if r != "T":
                ctx.violation(kind="predicate-failure", suite="C09-copy", backend=k, predicate="copy/deepcopy equal", impl=r)
