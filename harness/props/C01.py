"""C01 - canonical output is well-formed ASCII in every component."""
import core
import gens
import suites
from proto import enc

TRUSTED_BASE = [
    "Coq 8.16.1 kernel (coqc); vm_compute only for the finite policy tables (128 ASCII characters x 9 quoters); no axioms",
    "models coq/Model/Quoter.v, Url.v validated by correspondence (both backends); oracles: idna, ipaddress, NFKC",
    "Spec/Rfc3986.v: my transcription of the RFC 3986 character classes",
    "extraction (ExtrOcamlBasic only), ocaml/driver*.ml, harness",
]
ASSUMPTIONS = ["source-to-model tie is differential testing"]
RULE = ("SQ: all strings of length <= L over a 16-symbol class alphabet x 9 quoters with the extracted wf predicate on the "
        "implementation's output; URL level: structured URLs and random build()/modifier/join programs in auto-encoding "
        "mode, predicate c01_pred on the observation (ASCII string form, upper-case escapes, per-component RFC alphabet, "
        "bytes()); distinct = distinct request; non-trivial = result is a URL / output differs from input")



def run(ctx):
    L = 3 if ctx.quick else 4
    strs = list(gens.all_strings(gens.SQ_ALPHABET, L)) + gens.single_codepoints(not ctx.quick)
    strs += gens.random_mixed(ctx.rng, 2000 if ctx.quick else 30000)
    reqs = [("quote", [i, s]) for i in range(9) for s in strs]
    core.check_suite(ctx, "SQ-wf", reqs, split=True, pred="c01_quote_pred", nontrivial=lambda rs: set())
    progs = suites.standard_programs(ctx, 6000 if ctx.quick else 80000, 8000 if ctx.quick else 100000, maxops=4)
    progs = [f["witness"] for f in ctx.findings if f.get("witness")] + [p for p in progs if suites.is_autoenc(p)]
    outs = suites.observe(ctx, "C01-programs", progs, profile=0)
    suites.apply_pred(ctx, "C01-programs", "c01_pred", outs, lambda k, i: outs[k][i],
                      lambda k, i: {"program": progs[i], "impl": outs[k][i]}, kf=core.kf_list(ctx),
                      select=lambda k, i: outs[k][i].startswith("["))
