"""C06 - decoded views are faithful and supplied values read back unchanged."""
import core
import gens
import suites
from proto import enc

TRUSTED_BASE = [
    "Coq 8.16.1 kernel (coqc); no axioms",
    "Spec/Decode.v: my formulation of 'UTF-8 percent-decoding, malformed or undecodable escapes kept verbatim' (greedy, Unicode Table 3-7)",
    "models coq/Model/Unquoter.v, Query.v, Url.v validated by correspondence (both backends)",
    "extraction (ExtrOcamlBasic only), ocaml/driver*.ml, harness",
]
ASSUMPTIONS = ["source-to-model tie is differential testing"]
RULE = ("raw components assembled from 39 escape/literal tokens (valid, overlong, surrogate, truncated, too-large UTF-8 sequences, lower case, "
        "'+', delimiters) placed in user, password, path, query and fragment through URL(..., encoded=True) and URL(...); every decoded accessor "
        "compared with Spec/Decode.v of its raw component (c06_pred kinds 0, 1); decoded texts (every reserved character, '%', non-ASCII, "
        "non-BMP, controls) supplied through build/with_user/with_password/with_path/with_name/with_fragment/with_query/'/'/joinpath read "
        "back (kind 2); distinct = distinct request")

TEXTS = gens.TEXTS + ["a%2Fb", "%2F", "%25", "100%", "a+b c", "k&v=w;x", "é/ü", "\U0001f600", "#?[]@:!$&'()*+,;=", "a\\b", "\x7f", "­", "x%zzy", "%C3%A9", "\U00100000", "\U0010ffff", "\U00010000", "\ud7ff\ue000", "\uffff"]


def build(**kw):
    d = dict(scheme="http", authority="", user=None, password=None, host="h", port=None, path="", query=None, query_string="", fragment="", encoded=False)
    d.update(kw)
    return ["build", d["scheme"], d["authority"], d["user"], d["password"], d["host"], d["port"], d["path"], d["query"], d["query_string"], d["fragment"], d["encoded"]]


def run(ctx):
    rng = ctx.rng
    toks = gens.UNQ_TOKENS
    raws = [""] + toks + [a + b for a in toks for b in toks]
    if not ctx.quick:
        raws += list(gens.unq_strings(3))
    raws += ["".join(rng.choice(toks) for _ in range(rng.randint(1, 8))) for _ in range(500 if ctx.quick else 10000)]
    progs = []
    for r in raws:
        safe_ui = r.replace("/", "").replace("@", "").replace(":", "").replace("?", "").replace("#", "")
        p = r.replace("?", "").replace("#", "")
        progs.append([["push", ["enc", "http://" + (safe_ui + ":" + safe_ui + "@" if safe_ui else "") + "h/" + p + "/n." + p + "?" + r.replace("#", "") + "#" + r]]])
    for r in raws[: (600 if ctx.quick else 20000)]:
        p = r.replace("?", "").replace("#", "")
        progs.append([["push", ["url", "http://h/" + p + "?k" + r.replace("#", "") + "=" + r.replace("#", "").replace("&", "") + "#" + r]]])
    progs += suites.standard_programs(ctx, 3000 if ctx.quick else 50000, 3000 if ctx.quick else 50000)
    progs = [f["witness"] for f in ctx.findings if f.get("witness")] + progs
    outs = suites.observe(ctx, "C06-views", progs, profile=2)
    KF = core.kf_list(ctx)
    for kind in (0, 1):
        suites.apply_pred(ctx, "C06-views", "c06_pred", outs, lambda k, i, kind=kind: enc(kind) + " " + outs[k][i],
                          lambda k, i, kind=kind: {"kind": kind, "program": progs[i], "impl": outs[k][i][:1500]}, kf=KF,
                          select=lambda k, i: outs[k][i].startswith("["))
    # read-back of supplied decoded values
    cases = []
    base = [["push", ["url", "http://u:p@h/a/b?q=1#f"]]]
    for t in TEXTS:
        cases.append((0, t, "", [["push", build(user=t)]]))
        cases.append((1, t, "", [["push", build(user="u", password=t)]]))
        cases.append((0, t, "", base + [["op", "with_user", t]]))
        cases.append((1, t, "", base + [["op", "with_password", t]]))
        if not t.startswith("/"):
            cases.append((2, "/" + t, "", [["push", build(path="/" + t)]]))
            cases.append((2, "/" + t, "", base + [["op", "with_path", "/" + t, False, False, False]]))
            cases.append((2, "/" + t, "", base + [["op", "with_path", t, False, False, False]]))
        cases.append((3, t, "", base + [["op", "with_name", t, False, False]]))
        cases.append((3, t, "", base + [["op", "div", t]]))
        cases.append((3, t, "", base + [["op", "joinpath", ["x", t], False]]))
        cases.append((4, t, "", [["push", build(fragment=t)]]))
        cases.append((4, t, "", base + [["op", "with_fragment", t]]))
        for t2 in TEXTS[:: (9 if ctx.quick else 2)]:
            cases.append((5, t, t2, base + [["op", "with_query", ["map", [t, t2]]]]))
            cases.append((5, t, t2, [["push", build(query=["map", [t, t2]])]]))
    code = {"user": 0, "password": 1, "path": 2, "name": 3, "fragment": 4}
    for comp, t, prog in suites.reapply_cases(base, TEXTS + suites.SELF_TEXTS):
        if comp in code:
            cases.append((code[comp], t, "", prog))
    ro = suites.observe(ctx, "C06-readback", [c[3] for c in cases], profile=2)
    suites.apply_pred(ctx, "C06-readback", "c06_pred", ro,
                      lambda k, i: " ".join([enc(2), enc(cases[i][0]), enc(cases[i][1]), enc(cases[i][2]), ro[k][i]]),
                      lambda k, i: {"what": cases[i][0], "text": cases[i][1], "text2": cases[i][2], "program": cases[i][3], "impl": ro[k][i][:1200]}, kf=KF)
