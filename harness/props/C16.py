"""C16 - hosts are stored in one canonical form and hostile hosts are rejected."""
import ipaddress
import unicodedata

import core
import gens
import suites
from proto import enc

TRUSTED_BASE = [
    "Coq 8.16.1 kernel (coqc); vm_compute for the 128-character reg-name table; no axioms",
    "oracles (explicit premises of the theorems): ipaddress.ip_address, idna.encode/decode, codec 'idna', unicodedata.normalize('NFKC'); "
    "the extracted model asks the real libraries",
    "model coq/Model/Host.v, Parse.v (_check_netloc), Url.v validated by correspondence (both backends)",
    "extraction (ExtrOcamlBasic only), ocaml/driver*.ml, harness",
]
ASSUMPTIONS = ["source-to-model tie is differential testing; IDNA-encoded (non-ASCII) hosts: lower-case ASCII form is checked on the "
               "implementation's output by the extracted predicate, not proved (it is a property of the idna library)"]
RULE = ("host corpus (reg-names with every ASCII character in host position, case variants, IDN labels, percent forms, IPv4/IPv6 "
        "spellings with and without zone, bracket garbage) through URL(), build(host=), build(authority=), with_host(); predicates: "
        "canonical stored form + bracket faces (c16_pred), reject-iff-not-reg-name (c16_reject_pred), decoded host re-encodes "
        "(c16_reencode_pred); every code point whose NFKC form contains / ? # @ : in host, userinfo and port position must be "
        "rejected (thorough: all 0x110000 code points in host position); distinct = distinct (route, host)")

IPS = ["127.0.0.1", "1.2.3.4", "255.255.255.255", "0.0.0.0", "1.2.3", "1.2.3.4.5", "01.2.3.4", "256.1.1.1", "0x7f.0.0.1", "1.2.3.4%z",
       "::1", "::", "2001:DB8::1", "2001:db8:0:0:0:ff00:42:8329", "0:0:0:0:0:0:0:1", "::ffff:1.2.3.4", "fe80::1%eth0", "fe80::1%25eth0",
       "FE80::1%Eth0", "fe80::1%", "1::2::3", ":::", "12345::", "::1%a b", "::1%a/b", "::g", "[::1]", "v1.x", "::1]", "[::1",
       # Unicode decimal digits in address position (full-width, Arabic-Indic, mixed), IPvFuture look-alikes
       "１２７.０.０.１", "192.168.1.１", "١٢٧.٠.٠.١", "1.2.3.４", "１.2.3.4", "٣", "1.2.3.4٣", "::１", "fe80::1%１",
       "va.gov", "v1.example.com", "vf.fe80", "V1.x"]
NAMES = ["h", "example.com", "EXAMPLE.COM", "ExAmPlE.cOm", "WWW.café.com", "EXAMPLE.пример.рф", "bücher.Example.ORG", "Www.xn--caf-dma.COM", "a-b.c", "a_b", "h.", "a..b", ".a", "xn--bcher-kva.example", "XN--BCHER-KVA.EXAMPLE",
         "bücher.example", "BÜCHER.example", "例え.テスト", "ｅxample.com", "a。b", "Éx_.Com", "a／b", "a%41", "a%zz", "a%4", "%", "a%2Fb", "~x", "!$&'()*+,;=",
         "a b", "a/b", "a?b", "a#b", "a@b", "a:b", "a[b", "a]b", "a\\b", "a\"b", "a<b>", "a^b", "a`b", "a{b}", "a|b", "\x00", "a\tb", "a\nb",
         "x" * 64 + ".com", "a." * 100 + "b", "1", "9a", "a9", "123.456", "\u00df.de", "\u200dx", "x\u00ad", "\u0130"]


def hosts():
    out = list(NAMES) + list(IPS)
    out += ["a" + chr(c) + "b" for c in range(128)]
    out += [chr(c) for c in range(33, 127)]
    return out


def is_ip(h):
    try:
        ipaddress.ip_address(h.partition("%")[0])
        return True
    except ValueError:
        return False


def hostile_codepoints(full):
    rng = range(0x80, 0x110000) if full else list(range(0x80, 0x3000)) + list(range(0xFE00, 0x10000))
    return [c for c in rng if any(d in unicodedata.normalize("NFKC", chr(c)) for d in "/?#@:")]


def build(host="", authority="", scheme="http"):
    return ["build", scheme, authority, None, None, host, None, "/p", None, "", "", False]


def run(ctx):
    hs = hosts()
    progs, meta = [], []
    for h in hs:
        br = ("[" + h + "]") if (":" in h and not h.startswith("[")) else h
        progs += [[["push", ["url", "http://" + br + "/p"]]], [["push", ["url", "http://u:p@" + br + ":8080/p"]]],
                  [["push", build(host=h)]], [["push", build(authority=br)]], [["push", build(authority="u@" + br + ":81")]],
                  [["push", ["url", "http://x/p"]], ["op", "with_host", h]],
                  [["push", ["url", "x://u:p@[::1]:99/p?q#f"]], ["op", "with_host", h]]]
    validated = [p[-1][0] == "op" or (p[-1][1][0] == "build" and p[-1][1][5] != "") for p in progs]
    extra = [p for p in suites.standard_programs(ctx, 2000 if ctx.quick else 40000, 2000 if ctx.quick else 40000) if suites.is_autoenc(p)]
    wit = [f["witness"] for f in ctx.findings if f.get("witness")]
    progs = wit + progs + extra
    validated = [False] * len(wit) + validated + [False] * len(extra)
    outs = suites.observe(ctx, "C16-routes", progs, profile=2)
    KF = core.kf_list(ctx)
    suites.apply_pred(ctx, "C16-routes", "c16_pred", outs, lambda k, i: outs[k][i],
                      lambda k, i: {"program": progs[i], "impl": outs[k][i]}, kf=KF,
                      select=lambda k, i: outs[k][i].startswith("["))
    # decoded host re-encodes to the same raw host
    from proto import dec

    def reenc(k, i):
        if not outs[k][i].startswith("["):
            return None
        o = dec(outs[k][i])
        h = o[23]
        if not isinstance(h, str) or not h:
            return None
        return [["push", build(host=h)]]
    st2 = suites.second_stage(ctx, "C16-reencode", outs, reenc)
    suites.apply_pred(ctx, "C16-reencode", "c16_reencode_pred", outs,
                      lambda k, i: (enc(validated[i]) + " " + outs[k][i] + " " + st2[k][i]) if i in st2[k] else None,
                      lambda k, i: {"program": progs[i], "first": outs[k][i], "reencoded": st2[k].get(i)}, kf=KF)
    # build()/with_host() reject exactly the hosts outside the reg-name grammar
    ascii_hosts = [h for h in hs if h.isascii() and h]
    r1 = suites.observe(ctx, "C16-reject-build", [[["push", build(host=h)]] for h in ascii_hosts], profile=0)
    r2 = suites.observe(ctx, "C16-reject-with_host", [[["push", ["url", "http://x/"]], ["op", "with_host", h]] for h in ascii_hosts], profile=0)
    for k in suites.backends(r1):
        args = [" ".join([enc(h), enc(is_ip(h)), r1[k][i], r2[k][i]]) for i, h in enumerate(ascii_hosts)]
        ok = core.eval_pred(ctx, "c16_reject_pred", args)
        core.record_failures(ctx, "C16-reject-build", "c16_reject_pred", ok,
                             lambda m, k=k: {"backend": k, "host": ascii_hosts[m], "build": r1[k][m][:300], "with_host": r2[k][m][:300]})
    # NFKC screen
    cps = hostile_codepoints(not ctx.quick)
    nprogs = []
    for c in cps:
        ch = chr(c)
        nprogs += [[["push", ["url", "http://a" + ch + "b/"]]], [["push", ["url", "http://u" + ch + "x@h/"]]],
                   [["push", ["url", "http://h:8" + ch + "/"]]], [["push", ["url", "//" + ch]]]]
    n = suites.observe(ctx, "C16-nfkc-screen", nprogs, profile=0, classes={"hostile_code_points": len(cps)})
    suites.apply_pred(ctx, "C16-nfkc-screen", "c16_nfkc_pred", n, lambda k, i: n[k][i],
                      lambda k, i: {"program": nprogs[i], "impl": n[k][i][:300]})
    if not ctx.quick:
        # every code point in host position: canonical form or rejection, model = implementation
        allp = [[["push", ["url", "http://a" + chr(c) + "/"]]] for c in range(0x80, 0x110000) if not (0xD800 <= c < 0xE000)]
        o = suites.observe(ctx, "C16-all-code-points", allp, profile=0)
        suites.apply_pred(ctx, "C16-all-code-points", "c16_pred", o, lambda k, i: o[k][i],
                          lambda k, i: {"program": allp[i], "impl": o[k][i][:300]}, kf=KF,
                          select=lambda k, i: o[k][i].startswith("["))
