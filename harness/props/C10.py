"""C10 - equality, hashing and ordering are coherent."""
import core
import gens
from proto import enc

TRUSTED_BASE = [
    "Coq 8.16.1 kernel (coqc); no axioms",
    "model coq/Model/Url.v (__eq__, __hash__ key, ordering) validated by correspondence",
    "hash() of a tuple is a function of the tuple (CPython); object identity and hash values are never compared with the model",
    "'never equal to a non-URL object' lives in type-dispatch glue: covered by a direct implementation probe only",
    "extraction (ExtrOcamlBasic only), ocaml/driver*.ml, harness",
]
ASSUMPTIONS = ["source-to-model tie is differential testing"]
RULE = ("pairs of URL programs: identical, ''-vs-'/' path under an authority, explicit default port, one component "
        "changed, other construction route (build, encoded=True, modifier chain); all five operators and hash in both "
        "orders; triples for transitivity; pairs with two differences at once (an earlier component equal only under the normalisation, a later "
        "one different); distinct = distinct pair; non-trivial = the two programs differ")


def variants(rng, s):
    out = [s]
    if "//" in s:
        out.append(s.replace("//", "//x@", 1))
    for a, b in (("/a", ""), ("/a", "/"), (":80", ""), ("http:", "https:"), ("?a=1", ""), ("#f", ""), ("h", "H"), ("a", "b"), ("/", "//"),
                 ("%2F", "/"), ("%2f", "/"), ("%41", "A"), ("%7E", "~"), ("%20", "+"), ("%2B", "+"), ("%3D", "=")):
        if a in s:
            out.append(s.replace(a, b, 1))
    out.append(s + "/")
    out.append(s + "?")
    out.append(s + "#x")
    return out


def run(ctx):
    rng = ctx.rng
    bases = ["http://a", "http://a/", "http://a:80", "http://a:80/", "http://A/", "http://a/?", "http://a/#", "//a", "//a/",
             "", "/", "a", "http:a", "http:/a", "http://a/b", "http://a/b/", "http://u@a/", "http://a/?x=1", "http://a/#f",
             "http://a/%7e", "http://a/~", "http://a/x%2Fy/z", "http://a/x/y/z", "http://a/p?k=a%2Bb", "http://a/p?k=a+b", "http://a/p?k=a%20b",
             "http://u%40x@a/", "http://a/#f%23", "http://a/%41", "http://a/A", "https://a", "http://a:81", "http://b", "http://a/a", "http://a/b?x", "x://", "x:///"]
    bases += gens.structured_urls(rng, 150 if ctx.quick else 1500)
    progs = []
    for s in bases:
        for v in variants(rng, s)[: (6 if ctx.quick else 20)]:
            progs.append([["push", ["url", v]]])
    progs.append([["push", ["build", "http", "", None, None, "a", None, "", None, "", "", False]]])
    progs.append([["push", ["build", "http", "", None, None, "a", None, "/", None, "", "", False]]])
    progs.append([["push", ["enc", "http://a"]]])
    progs.append([["push", ["url", "http://a/x"]], ["op", "parent"]])
    progs.append([["push", ["url", "http://a/x"]], ["op", "with_path", "", False, False, False]])
    progs += gens.random_programs(rng, 200 if ctx.quick else 3000, maxops=2)
    # pairs: each program against a window of neighbours (near-collisions are adjacent)
    pairs = []
    W = 7 if ctx.quick else 15
    for i in range(len(progs)):
        for j in range(i, min(len(progs), i + W)):
            pairs.append((i, j))
    for _ in range(2000 if ctx.quick else 40000):
        pairs.append((rng.randrange(len(progs)), rng.randrange(len(progs))))
    # two differences at once: an earlier component spelled differently but EQUAL under the normalisation ('' vs '/'
    # under an authority), and a later component that differs, in either direction - the comparison must go on
    # to the later component
    for a, b in (("http://h", "http://h/"), ("//h", "//h/"), ("http://u@h:81", "http://u@h:81/"), ("x://h", "x://h/")):
        for qa, qb in (("?x=1", "?x=2"), ("?x=2", "?x=1"), ("", "?x"), ("?x", ""), ("#a", "#b"), ("#b", "#a"), ("?x=1#b", "?x=1#a"),
                       ("?x", "?x"), ("?y#a", "?x#b"), ("", "#f")):
            for l, r in ((a + qa, b + qb), (b + qa, a + qb)):
                progs.append([["push", ["url", l]]])
                progs.append([["push", ["url", r]]])
                pairs.append((len(progs) - 2, len(progs) - 1))
                pairs.append((len(progs) - 1, len(progs) - 2))
    obs = core.check_suite(ctx, "C10-observe", [("observe", [0, p]) for p in progs], split=True)
    cmp_reqs = []
    for i, j in pairs:
        cmp_reqs.append(("compare", [progs[i], progs[j]]))
        cmp_reqs.append(("compare", [progs[j], progs[i]]))
    cmps = core.check_suite(ctx, "C10-compare", cmp_reqs, split=True,
                            nontrivial=lambda rs: {repr(a) for _, a in rs if a[0] != a[1]})
    for k in [k for k in cmps if k != "model"]:
        args = []
        for n, (i, j) in enumerate(pairs):
            args.append(" ".join([obs[k][i], obs[k][j], cmps[k][2 * n], cmps[k][2 * n + 1]]))
        # pairs where a program raised are skipped by sending them through anyway: the predicate needs lists
        keep = [n for n in range(len(pairs)) if cmps[k][2 * n].startswith("[") and obs[k][pairs[n][0]].startswith("[") and obs[k][pairs[n][1]].startswith("[")]
        ok = core.eval_pred(ctx, "c10_pred", [args[n] for n in keep])
        core.record_failures(ctx, "C10-compare", "c10_pred", ok,
                             lambda m, k=k, keep=keep: {"backend": k, "programs": [progs[pairs[keep[m]][0]], progs[pairs[keep[m]][1]]],
                                                        "cmp_ab": cmps[k][2 * keep[m]], "cmp_ba": cmps[k][2 * keep[m] + 1]})
        # transitivity on triples drawn from the pair table
        idx = {p: n for n, p in enumerate(pairs)}
        targs, tdesc = [], []
        for (i, j) in pairs[: (4000 if ctx.quick else 40000)]:
            for l in range(j, min(len(progs), j + 3)):
                if (j, l) in idx and (i, l) in idx:
                    a, b, c = cmps[k][2 * idx[(i, j)]], cmps[k][2 * idx[(j, l)]], cmps[k][2 * idx[(i, l)]]
                    if a.startswith("[") and b.startswith("[") and c.startswith("["):
                        targs.append(" ".join([a, b, c]))
                        tdesc.append((i, j, l))
        ok = core.eval_pred(ctx, "c10_trans_pred", targs)
        ctx.count("C10-transitivity", len(targs), set(targs[:0]))
        core.record_failures(ctx, "C10-transitivity", "c10_trans_pred", ok,
                             lambda m, k=k: {"backend": k, "programs": [progs[x] for x in tdesc[m]]})
    # equal URLs hash equally whatever was done to the URLs they were derived from
    import suites
    suites.touch_invariance(ctx, "C10-used-intermediates",
                            gens.random_programs(rng, 400 if ctx.quick else 6000, maxops=3), 400 if ctx.quick else 6000)
    # never equal to a non-URL object (type-dispatch glue, implementation only)
    probe = core.run_all(ctx, [core.call_line("not_equal_non_url")], kinds=("py", "c"))
    for k, o in probe.items():
        ctx.count("C10-non-url", 1, {"non-url"})
        if o[0] != "T":
            ctx.violation(kind="predicate-failure", suite="C10-non-url", backend=k, predicate="never equal to non-URL objects", impl=o[0])
