#!/bin/sh
# usage: validate_seed.sh <worktree> <seed-id> <property>
# confirms: suite passes with the change, demo fails with it and passes without it;
# then stores patch.diff, demo.py, notes.md and meta.json under /verif/seeded/<seed-id>/
WT=$1; ID=$2; PROP=$3
cd "$WT" || exit 2
git diff -- yarl > /tmp/seed_$ID.diff
[ -s /tmp/seed_$ID.diff ] || { echo "no change in worktree"; exit 2; }
SUITE=$(PYTHONPATH=$WT /venv/bin/python -m pytest -q -p no:cacheprovider -n 8 2>&1 | tail -1)
PYTHONPATH=$WT /venv/bin/python $WT/_seed/demo.py > /tmp/seed_$ID.with.out 2>&1; RC_WITH=$?
git apply -R /tmp/seed_$ID.diff
# rebuild extension if the pyx was part of the change
if grep -q "_quoting_c.pyx" /tmp/seed_$ID.diff; then
  (cd yarl && /venv/bin/python -m cython -3 -o _quoting_c.c _quoting_c.pyx && gcc -shared -fPIC -O2 -I$(/venv/bin/python -c "import sysconfig;print(sysconfig.get_paths()['include'])") _quoting_c.c -o _quoting_c.cpython-312-x86_64-linux-gnu.so) >/dev/null 2>&1
fi
PYTHONPATH=$WT /venv/bin/python $WT/_seed/demo.py > /tmp/seed_$ID.without.out 2>&1; RC_WITHOUT=$?
git apply /tmp/seed_$ID.diff
if grep -q "_quoting_c.pyx" /tmp/seed_$ID.diff; then
  (cd yarl && /venv/bin/python -m cython -3 -o _quoting_c.c _quoting_c.pyx && gcc -shared -fPIC -O2 -I$(/venv/bin/python -c "import sysconfig;print(sysconfig.get_paths()['include'])") _quoting_c.c -o _quoting_c.cpython-312-x86_64-linux-gnu.so) >/dev/null 2>&1
fi
echo "suite: $SUITE | demo with change rc=$RC_WITH | without rc=$RC_WITHOUT"
case "$SUITE" in *"1467 passed"*) ;; *) echo "SUITE NOT PASSING"; exit 1;; esac
[ "$RC_WITH" != "0" ] && [ "$RC_WITHOUT" = "0" ] || { echo "DEMO NOT DISCRIMINATING"; exit 1; }
D=/verif/seeded/$ID; mkdir -p $D
cp /tmp/seed_$ID.diff $D/patch.diff; cp $WT/_seed/demo.py $D/demo.py; cp $WT/_seed/notes.md $D/notes.md 2>/dev/null
/venv/bin/python - "$ID" "$PROP" "$SUITE" "$RC_WITH" "$RC_WITHOUT" <<'PY'
import json, sys
i, prop, suite, a, b = sys.argv[1:]
notes = open(f"/verif/seeded/{i}/notes.md").read() if __import__("os").path.exists(f"/verif/seeded/{i}/notes.md") else ""
json.dump({"id": i, "breaks_property": prop,
           "needs_to_manifest": "see notes.md (written by the independent sub-agent that produced the change)",
           "confirmed": {"suite_with_change": suite, "demo_rc_with_change": int(a), "demo_rc_without_change": int(b),
                         "how": "harness/validate_seed.sh in a scratch git worktree of /repo (removed afterwards)"},
           "detected_by": None}, open(f"/verif/seeded/{i}/meta.json", "w"), indent=1)
PY
echo stored $D
