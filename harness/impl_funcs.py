"""Entry points of the implementation worker: interpret the same URL programs as the
extracted model (Model/Prog.v) on the real yarl and observe the result."""
import copy
import pickle

from multidict import MultiDict
from yarl import URL

from proto import Exn


def _exn(e):
    from impl_worker import exn_of
    return exn_of(e)


def tag(v):
    return v


class _Other:
    """an object of an undocumented type"""

    def __repr__(self):
        return "<other>"


class _StrSub(str):
    """a strict subclass of str (like multidict.istr or a str-mixin enum member)"""


def qvar(v):
    if isinstance(v, list):
        t = v[0]
        if t == "strsub":
            return _StrSub(v[1])
        if t == "float":
            return float(v[1])
        if t == "inf":
            return float("inf")
        if t == "nan":
            return float("nan")
        if t == "other":
            return _Other()
        raise ValueError("qvar " + repr(v))
    return v  # str, int, bool, None


def qval(v):
    if isinstance(v, list) and v and v[0] == "list":
        return [qvar(x) for x in v[1:]]
    return qvar(v)


def qarg(v, form=0):
    if v is None or isinstance(v, str):
        return v
    t = v[0]
    items = [(k, qval(x)) for k, x in v[1:]] if t in ("map", "seq") else None
    if t == "map":
        # a mapping: MultiDict keeps duplicates and order; dict when keys are unique
        if len({k for k, _ in items}) == len(items) and form % 2 == 0:
            return dict(items)
        return MultiDict(items)
    if t == "seq":
        return items if form % 2 == 0 else tuple(items)
    if t == "bytes":
        return b"x"
    return _Other()


def ctor(c):
    t = c[0]
    if t == "url":
        return URL(c[1])
    if t == "enc":
        return URL(c[1], encoded=True)
    if t == "build":
        _, sc, au, us, pw, ho, po, pa, qu, qs, fr, en = c
        kw = dict(scheme=sc, authority=au, user=us, password=pw, host=ho, port=po, path=pa,
                  query_string=qs, fragment=fr, encoded=en)
        q = qarg(qu)
        if q is not None:
            kw["query"] = q
        return URL.build(**kw)
    raise ValueError("ctor " + repr(c))


def apply_op(u, name, args):
    if name == "with_scheme":
        return u.with_scheme(args[0])
    if name == "with_user":
        return u.with_user(args[0])
    if name == "with_password":
        return u.with_password(args[0])
    if name == "with_host":
        return u.with_host(args[0])
    if name == "with_port":
        return u.with_port(args[0])
    if name == "with_path":
        return u.with_path(args[0], encoded=args[1], keep_query=args[2], keep_fragment=args[3])
    if name == "with_query":
        return u.with_query(qarg(args[0]))
    if name == "extend_query":
        return u.extend_query(qarg(args[0]))
    if name == "update_query":
        return u.update_query(qarg(args[0]))
    if name == "without_query_params":
        return u.without_query_params(*args[0])
    if name == "with_fragment":
        return u.with_fragment(args[0])
    if name == "with_name":
        return u.with_name(args[0], keep_query=args[1], keep_fragment=args[2])
    if name == "with_suffix":
        return u.with_suffix(args[0], keep_query=args[1], keep_fragment=args[2])
    if name == "parent":
        return u.parent
    if name == "joinpath":
        import sys
        # equal arguments are the SAME object, as when a caller passes one variable twice
        return u.joinpath(*[sys.intern(a) if isinstance(a, str) else a for a in args[0]], encoded=args[1])
    if name == "div":
        return u / args[0]
    if name == "origin":
        return u.origin()
    if name == "relative":
        return u.relative()
    if name == "pickle":
        return pickle.loads(pickle.dumps(u))
    raise ValueError("op " + name)


def touch(u):
    """use an intermediate value the way a caller might between two derivations: hash it,
    print it, compare it with itself, read every accessor (fills every per-object cache)"""
    att(lambda: hash(u))
    att(lambda: u == u)
    observe_raw(u)
    observe_dec(u)


def run_prog(prog):
    stack = []
    for ins in prog:
        t = ins[0]
        if t == "push":
            stack.append(ctor(ins[1]))
        elif t == "op":
            stack[-1] = apply_op(stack[-1], ins[1], ins[2:])
        elif t == "touch":
            touch(stack[-1])
        elif t == "derive":
            # use the value on top of the stack as the SOURCE of a derivation whose result is thrown away
            # (the value itself stays): a URL never changes, whatever is derived from it
            touch(stack[-1])
            att(lambda: touch(apply_op(stack[-1], ins[1], ins[2:])))
        elif t == "join":
            ref = stack.pop()
            base = stack.pop()
            stack.append(base.join(ref))
        else:
            raise ValueError("instr " + repr(ins))
    return stack


def att(f):
    try:
        return f()
    except BaseException as e:  # noqa: B902
        if isinstance(e, (KeyboardInterrupt, SystemExit)):
            raise
        return _exn(e)


RAW = [
    lambda u: str(u), lambda u: u.scheme, lambda u: u.raw_authority,
    lambda u: u.raw_user, lambda u: u.raw_password, lambda u: u.raw_host,
    lambda u: u.explicit_port, lambda u: u.port,
    lambda u: u.raw_path, lambda u: u.raw_query_string, lambda u: u.raw_fragment,
    lambda u: u.host_subcomponent, lambda u: u.host_port_subcomponent,
    lambda u: u.is_default_port(), lambda u: u.absolute,
    lambda u: list(u.raw_parts), lambda u: u.raw_name, lambda u: u.raw_suffix,
    lambda u: list(u.raw_suffixes), lambda u: u.raw_path_qs,
    lambda u: bytes(u).decode("ascii"),
]
DEC = [
    lambda u: u.user, lambda u: u.password, lambda u: u.host,
    lambda u: u.path, lambda u: u.path_safe, lambda u: u.query_string,
    lambda u: [[k, v] for k, v in u.query.items()],
    lambda u: u.fragment, lambda u: list(u.parts), lambda u: u.name, lambda u: u.suffix,
    lambda u: list(u.suffixes), lambda u: u.authority, lambda u: u.path_qs,
    lambda u: u.human_repr(),
]


def observe_raw(u):
    return [att(lambda f=f: f(u)) for f in RAW]


def observe_dec(u):
    return [att(lambda f=f: f(u)) for f in DEC]


def observe_fresh(profile, prog):
    """every accessor read on its OWN fresh copy of the result (unpickled: nothing pre-computed, nothing read
    before), so that each accessor is once the first thing asked of an object"""
    u = run_prog(prog)[-1]
    fs = RAW if profile == 0 else DEC if profile == 1 else RAW + DEC
    out = []
    for f in fs:
        c = att(lambda: pickle.loads(pickle.dumps(u)))
        out.append(c if isinstance(c, Exn) else att(lambda f=f, c=c: f(c)))
    return out


def observe(profile, prog):
    stack = run_prog(prog)
    u = stack[-1]
    if profile == 0:
        return observe_raw(u)
    if profile == 1:
        return observe_dec(u)
    return observe_raw(u) + observe_dec(u)


def compare(p1, p2):
    a = run_prog(p1)[-1]
    b = run_prog(p2)[-1]
    return [a == b, a < b, a <= b, a > b, a >= b, hash(a) == hash(b)]


def not_equal_non_url():
    u = URL("http://a/b")
    others = ["http://a/b", b"http://a/b", None, 1, ("http", "a", "/b", "", ""), object(), ["http://a/b"]]
    ok = all((u != o) and not (u == o) and not (o == u) for o in others)
    for o in others:
        for f in (lambda: u < o, lambda: u <= o, lambda: u > o, lambda: u >= o):
            try:
                f()
                ok = False
            except TypeError:
                pass
    return ok


def copy_probe(s):
    u = URL(s)
    for v in (copy.copy(u), copy.deepcopy(u), pickle.loads(pickle.dumps(u, 2)), pickle.loads(pickle.dumps(u, 5))):
        if not (v == u and hash(v) == hash(u) and str(v) == str(u) and v.raw_path == u.raw_path and v.query == u.query):
            return False
    return True


def oom_sweep(i, s, nmax):
    """the same quoter call with only the (n+1)-th allocation request failing, n < nmax;
    then one undisturbed call.  Needs _testcapi (a CPython test helper)."""
    import sys
    import _testcapi
    from impl_worker import QNAMES
    from yarl import _quoters
    q = getattr(_quoters, QNAMES[i])
    hook = sys.unraisablehook
    sys.unraisablehook = lambda u: None
    out = []
    try:
        for n in range(nmax):
            _testcapi.set_nomemory(n, n + 1)
            try:
                try:
                    r = q(s)
                finally:
                    _testcapi.remove_mem_hooks()
            except BaseException as e:  # noqa: B902
                r = _exn(e)
            out.append(r)
    finally:
        sys.unraisablehook = hook
    out.append(q(s))
    return out


def oom_url_sweep(s, nmax):
    """URL("http://h/").with_path(s) / with_query / with_fragment under allocation faults:
    each call raises MemoryError or returns the undisturbed result; later calls are right"""
    import sys
    import _testcapi
    base = URL("http://h/")
    funcs = [lambda: str(base.with_path(s)), lambda: str(base.with_fragment(s)), lambda: str(base.with_query(s))]
    hook = sys.unraisablehook
    sys.unraisablehook = lambda u: None
    res = []
    try:
        for f in funcs:
            out = []
            for n in range(nmax):
                _testcapi.set_nomemory(n, n + 1)
                try:
                    try:
                        r = f()
                    finally:
                        _testcapi.remove_mem_hooks()
                except BaseException as e:  # noqa: B902
                    r = _exn(e)
                out.append(r)
            out.append(f())
            res.append(out)
    finally:
        sys.unraisablehook = hook
    return res


def query_arg_immutable(base, q):
    """with_query / extend_query / update_query leave their argument object unchanged"""
    u = URL(base)
    for form in (0, 1):
        for name in ("with_query", "extend_query", "update_query"):
            arg = qarg(q, form)
            def shape(a):
                if isinstance(a, MultiDict):
                    return ("md", repr(list(a.items())))
                return (type(a).__name__, repr(a))
            snap = shape(arg)
            try:
                getattr(u, name)(arg)
            except (TypeError, ValueError):
                pass
            if shape(arg) != snap:
                return False
    return True


def _obs(u, profile):
    if profile == 0:
        return observe_raw(u)
    if profile == 1:
        return observe_dec(u)
    return observe_raw(u) + observe_dec(u)


def history_run(progs, profile, warm):
    """Runs the programs one after the other in this process, keeping every result alive.
    cold: all caches are cleared before every program.  warm: tiny caches, cache_configure and
    cache_clear interleaved.  Returns [first, again, cmp_first, cmp_after_left_hash, cmp_final]:
    the observation of each result when it was created, its observation at the very end,
    and the comparison operators of neighbouring results before hashing, after hashing
    only the left operand, and at the end."""
    import yarl
    sizes = [2, 0, 1, None, 3]
    if warm:
        yarl.cache_configure(idna_encode_size=2, idna_decode_size=2, encode_host_size=2)
    objs, first = [], []
    for i, p in enumerate(progs):
        if not warm:
            yarl.cache_clear()
        elif i % 7 == 3:
            n = sizes[(i // 7) % len(sizes)]
            yarl.cache_configure(idna_encode_size=n, idna_decode_size=n, encode_host_size=n)
        elif i % 11 == 5:
            yarl.cache_clear()
        try:
            u = run_prog(p)[-1]
            objs.append(u)
            first.append(_obs(u, profile))
        except BaseException as e:  # noqa: B902
            if isinstance(e, (KeyboardInterrupt, SystemExit)):
                raise
            objs.append(None)
            first.append(_exn(e))

    def cmp(a, b):
        if a is None or b is None:
            return None
        return [a == b, a < b, a <= b, a > b, a >= b]
    pairs = [(objs[i], objs[i + 1]) for i in range(len(objs) - 1)]
    cmp_first = [cmp(a, b) for a, b in pairs]
    cmp_left = []
    for a, b in pairs:
        if a is not None:
            hash(a)
        cmp_left.append(cmp(a, b))
    again = [(_obs(u, profile) if u is not None else first[i]) for i, u in enumerate(objs)]
    cmp_final = [cmp(a, b) for a, b in pairs]
    yarl.cache_configure()
    return [first, again, cmp_first, cmp_left, cmp_final]


def threads_derive(bases, ops, profile, nthreads, rounds, seed):
    """Derivation from a shared, freshly created object while other threads read it for the
    first time.  For every base program (and round) one new object is created; after a barrier
    the even threads repeatedly apply their modifier to it (and observe the last result), the
    odd threads read every accessor of the shared object in a random order.  Returns
    [[per thread: observation or exception] per base] of the last round; thread t uses
    ops[(t // 4 + i) % len(ops)]."""
    import random
    import sys
    import threading
    import yarl
    old = sys.getswitchinterval()
    sys.setswitchinterval(1e-6)
    nb = len(bases)
    results = [[None] * nthreads for _ in range(nb)]
    cur = [None]
    gate = threading.Barrier(nthreads + 1)
    done = threading.Barrier(nthreads + 1)

    def reader_obs(u, rng):
        fs = [lambda: str(u), lambda: u.raw_user, lambda: u.raw_password, lambda: u.raw_host, lambda: u.explicit_port,
              lambda: u.port, lambda: u.raw_path, lambda: u.host_subcomponent, lambda: u.host_port_subcomponent,
              lambda: u.raw_parts, lambda: u.raw_name, lambda: u.raw_suffix, lambda: u.raw_suffixes, lambda: u.raw_path_qs,
              lambda: u.user, lambda: u.password, lambda: u.host, lambda: u.path, lambda: u.path_safe, lambda: u.query_string,
              lambda: u.query, lambda: u.fragment, lambda: u.parts, lambda: u.name, lambda: u.suffix, lambda: u.suffixes,
              lambda: u.authority, lambda: u.path_qs, lambda: u.parent, lambda: u.origin() if u.absolute and u.scheme else None,
              lambda: hash(u), lambda: u.absolute, lambda: u.scheme, lambda: u.raw_authority, lambda: u.raw_query_string]
        rng.shuffle(fs)
        for f in fs:
            f()
        return _obs(u, profile)

    def worker(tid):
        rng = random.Random(seed * 7919 + tid)
        for r in range(rounds):
            for i in range(nb):
                gate.wait()
                u = cur[0]
                from proto import Exn
                keep = isinstance(results[i][tid], Exn) and results[i][tid].name not in ("ValueError", "TypeError")
                try:
                    if u is None:
                        res = None
                    elif tid % 2 == 0:
                        # threads 0 and 2 (4 and 6, ...) apply the SAME modifier: what they get back may be one shared
                        # object (the construction caches), which one thread re-derives while the other reads it
                        op = ops[(tid // 4 + i) % len(ops)]
                        v = None
                        for _ in range(12):
                            v = apply_op(u, op[1], op[2:])
                            for f in (lambda: v.raw_host, lambda: v.explicit_port, lambda: v.raw_user, lambda: v.raw_password):
                                f()
                        res = _obs(v, profile)
                    else:
                        res = reader_obs(u, rng)
                except BaseException as e:  # noqa: B902
                    res = _exn(e)
                if not keep:          # a foreign exception of an earlier round stays recorded
                    results[i][tid] = res
                done.wait()
    ths = [threading.Thread(target=worker, args=(t,)) for t in range(nthreads)]
    for t in ths:
        t.start()
    for r in range(rounds):
        for i in range(nb):
            yarl.cache_clear()
            try:
                cur[0] = run_prog(bases[i])[-1]
            except BaseException:  # noqa: B902
                cur[0] = None
            gate.wait()
            done.wait()
    for t in ths:
        t.join()
    sys.setswitchinterval(old)
    return results


def threads_shared_result(bases, ops, iters, nthreads, seed):
    """Several threads apply the SAME modifier to the SAME object over and over and read the authority
    accessors of what they get back (the construction caches may hand all of them one shared object).
    Returns, per (base, op): [sequential observation, [observation or exception per thread]]."""
    import sys
    import threading
    old = sys.getswitchinterval()
    sys.setswitchinterval(1e-6)
    out = []
    try:
        for b in bases:
            for op in ops:
                try:
                    u = run_prog(b)[-1]
                    ref = _obs(apply_op(u, op[1], op[2:]), 0)
                except BaseException as e:  # noqa: B902
                    out.append([_exn(e), []])
                    continue
                u = run_prog(b)[-1]
                res = [None] * nthreads
                gate = threading.Barrier(nthreads)

                def worker(t):
                    try:
                        gate.wait()
                        v = None
                        for _ in range(iters):
                            v = apply_op(u, op[1], op[2:])
                            v.raw_host
                            v.explicit_port
                            v.raw_user
                            v.raw_password
                            str(v)
                        res[t] = _obs(v, 0)
                    except BaseException as e:  # noqa: B902
                        res[t] = _exn(e)
                ths = [threading.Thread(target=worker, args=(t,)) for t in range(nthreads)]
                for th in ths:
                    th.start()
                for th in ths:
                    th.join()
                out.append([ref, res])
    finally:
        sys.setswitchinterval(old)
    return out


def threads_run(progs, profile, nthreads, rounds, seed):
    """Every thread runs every program (in its own order, [rounds] times) against the shared
    module-level caches while another thread clears / reconfigures them; returns, per thread,
    the observation of each program's result from the last round (exceptions by type)."""
    import random
    import sys
    import threading
    import yarl
    old = sys.getswitchinterval()
    sys.setswitchinterval(1e-6)
    shared = []
    for p in progs:     # a pool of shared objects, created up front
        try:
            shared.append(run_prog(p)[-1])
        except BaseException:  # noqa: B902
            shared.append(None)
    results = [[None] * len(progs) for _ in range(nthreads)]
    stop = threading.Event()
    start = threading.Barrier(nthreads + 1)

    def worker(tid):
        rng = random.Random(seed * 1000 + tid)
        order = list(range(len(progs)))
        start.wait()
        for r in range(rounds):
            rng.shuffle(order)
            for i in order:
                try:
                    if (i + tid + r) % 2 and shared[i] is not None:
                        u = shared[i]          # accessor reads on a shared object
                    else:
                        u = run_prog(progs[i])[-1]
                    results[tid][i] = _obs(u, profile)
                except BaseException as e:  # noqa: B902
                    results[tid][i] = _exn(e)

    def disturber():
        sizes = [0, 1, None, 2, 256]
        n = 0
        start.wait()
        while not stop.is_set():
            n += 1
            if n % 3:
                yarl.cache_clear()
            else:
                k = sizes[n % len(sizes)]
                yarl.cache_configure(idna_encode_size=k, idna_decode_size=k, encode_host_size=k)
    ths = [threading.Thread(target=worker, args=(t,)) for t in range(nthreads)]
    d = threading.Thread(target=disturber)
    for t in ths:
        t.start()
    d.start()
    for t in ths:
        t.join()
    stop.set()
    d.join()
    sys.setswitchinterval(old)
    yarl.cache_configure()
    return results


def cache_api_probe(sizes, text):
    """the public cache entry points after cache_configure() with documented size values
    (None, 0, small, large): each call returns or raises; the outcome of every step is reported"""
    import yarl
    out = []

    def step(f):
        try:
            r = f()
            out.append(r if isinstance(r, (str, bool, int)) or r is None else True)
        except BaseException as e:       # noqa: BLE001 - the type is the observation
            out.append(_exn(e))
    try:
        step(lambda: yarl.cache_configure(idna_encode_size=sizes[0], idna_decode_size=sizes[1], encode_host_size=sizes[2]))
        step(lambda: str(URL(text)))
        step(lambda: URL(text).host)
        step(lambda: str(URL(text).with_host("::1")))
        step(lambda: all(ci.hits >= 0 for ci in yarl.cache_info().values()))
        step(lambda: yarl.cache_info()["encode_host"].maxsize == sizes[2])
        step(lambda: yarl.cache_clear())
        step(lambda: str(URL(text)))
        step(lambda: yarl.cache_info()["idna_encode"].currsize >= 0)
    finally:
        step(lambda: yarl.cache_configure())
        step(lambda: yarl.cache_info()["encode_host"].maxsize)
    return out


def register(fn):
    fn(threads_shared_result)
    fn(observe_fresh)
    fn(cache_api_probe)
    fn(history_run)
    fn(threads_run)
    fn(threads_derive)
    fn(query_arg_immutable)
    fn(oom_sweep)
    fn(oom_url_sweep)
    fn(copy_probe)
    fn(not_equal_non_url)
    fn(observe)
    fn(compare)
