"""Input generators shared by the property modules.  Everything random derives from
the rng passed in (seeded from VERIF_SEED); exhaustive parts do not depend on it."""
import itertools

# one representative per proof class of the quoter proofs
SQ_ALPHABET = ["%", "2", "4", "f", "F", "g", "G", "z", " ", "/", "+", "&", "é", "€", "😀", "\ud800"]
SQ_SMALL = ["%", "2", "f", "F", "g", " ", "/", "+", "é", "😀", "\ud800", "=", "a"]


def all_strings(alphabet, maxlen):
    for n in range(0, maxlen + 1):
        for t in itertools.product(alphabet, repeat=n):
            yield "".join(t)


def single_codepoints(full):
    if full:
        return [chr(c) for c in range(0x110000)]
    pts = set(range(0, 0x900))
    for b in (0x7F, 0x80, 0x7FF, 0x800, 0xFFFF, 0x10000, 0x10FFFF, 0xD7FF, 0xD800, 0xDBFF, 0xDC00, 0xDFFF, 0xE000):
        for d in (-2, -1, 0, 1, 2):
            if 0 <= b + d < 0x110000:
                pts.add(b + d)
    pts.update(range(0xD800, 0xE000, 37))
    pts.update(range(0x10000, 0x110000, 4099))
    return [chr(c) for c in sorted(pts)]


HEXISH = list("0123456789abcdefABCDEF") + ["g", "G", "%", "é", "\ud800", " "]
CTX_L = ["", "a", "%", "%2"]
CTX_R = ["", "a", "%", "F"]


def escapes_in_context():
    for x in HEXISH:
        for y in HEXISH:
            for l in CTX_L:
                for r in CTX_R:
                    yield l + "%" + x + y + r


UNQ_TOKENS = ["%41", "%2F", "%2f", "%25", "%2B", "%26", "%3D", "%3B", "%20", "%C3", "%A9", "%c3%a9", "%E2", "%82",
              "%AC", "%F0", "%9F", "%98", "%80", "%ED", "%A0", "%E0", "%C0", "%F4", "%90", "%F5", "%FF",
              "%", "%4", "%zz", "+", "a", "/", "é", " ", "&", "=", ";", "%e2%82%ac"]


def unq_strings(maxlen, tokens=None):
    tokens = tokens or UNQ_TOKENS
    for n in range(0, maxlen + 1):
        for t in itertools.product(tokens, repeat=n):
            yield "".join(t)


def random_mixed(rng, n, maxlen=40):
    pool = SQ_ALPHABET + list("abcXYZ019-._~!$'()*,:@?#[]=;\"<>\\^`{|}\t\n\x00\x7f") + ["%41", "%2f", "%C3%A9", "%e2%82%ac", "%zz", "\U0010ffff", "\udfff"]
    out = []
    for _ in range(n):
        ln = rng.randint(0, maxlen)
        out.append("".join(rng.choice(pool) for _ in range(ln)))
    return out


def growth_boundary_strings(rng, buf=8192, ks=(1, 2, 3)):
    """strings whose quoted output length lands on k*buf + d, d in -3..3"""
    out = []
    for k in ks:
        for d in range(-3, 4):
            target = k * buf + d
            for filler, unit in (("é", 6), (" ", 3), ("\x00", 3), ("%", 3)):
                n = target // unit
                rest = target - n * unit
                s = filler * n + "a" * rest
                # shuffle a few safe characters in so that 'changed' is set late/early
                out.append(s)
                out.append("a" * rest + filler * n)
    return out


# ---------------------------------------------------------------------------------
# URL level
# ---------------------------------------------------------------------------------
SCHEMES = ["http", "https", "ws", "wss", "ftp", "file", "x-y.z+1", "mailto", ""]
USERINFO = ["", "u@", "u:p@", "u:@", ":p@", "u%40x:p%3Ay@", "us%20er:pa%2Fss@", "U:P@", "a+b:c=d@", "é:ü@"]
HOSTS = ["example.com", "h", "127.0.0.1", "[::1]", "[fe80::1%25eth0]", "[2001:db8::ff00:42:8329]",
         "xn--bcher-kva.example", "EXAMPLE.Com", "bücher.example", "a.b.c.", "1.2.3", "[::ffff:1.2.3.4]",
         "h_x", "a-b.c", "", "[v1.x]", "h%41", "0x7f.1", "[0:0:0:0:0:0:0:1]"]
PORTS = ["", ":80", ":443", ":21", ":8080", ":0", ":65535", ":65536", ":", ":081", ":x", ":-1"]
PATHS = ["", "/", "/a", "/a/b", "/a/", "//a", "/a//b", "/a%2Fb/c", "/%C3%A9", "/a;p=1", "/a+b", "/a b",
         "/.", "/..", "/a/./b/../c", "/%2E/%2e%2E/x", "/a.b.c", "/.hidden", "/x.tar.gz", "/é/ü.txt", "/a%zz",
         "/a%", "/%41%2f", "/a:b", "/@", "/a?", "a", "a/b", "../a", "./a", "a:b", "a/../..", "/a/b/c/d.e.f"]
QUERIES = ["", "?", "?a=1", "?a=1&b=2", "?a=1&a=2", "?a", "?a=", "?=1", "?a=b=c", "?a%26b=c%3Dd", "?a+b=c+d",
           "?a=%2B", "?x=é", "?a=1;b=2", "?a=1&&b=2", "?a=%FF", "?a=%E2%82", "?k=/?:@", "?a=b#c", "?%zz=1", "?a=1&"]
FRAGMENTS = ["", "#", "#f", "#f/g?h", "#%23", "#é", "#a b", "#a%zz", "#a#b"]


def structured_urls(rng, n):
    out = []
    for _ in range(n):
        sc = rng.choice(SCHEMES)
        has_auth = rng.random() < 0.8
        s = sc + ":" if sc else ""
        if has_auth:
            s += "//" + rng.choice(USERINFO) + rng.choice(HOSTS) + rng.choice(PORTS)
        s += rng.choice(PATHS) + rng.choice(QUERIES) + rng.choice(FRAGMENTS)
        if rng.random() < 0.1:
            # mutate one character
            if s:
                i = rng.randrange(len(s))
                s = s[:i] + rng.choice(list(":/?#[]@%. \t\n\x00é+&=;\\\"<>") + ["%2F", "%41", "\ud800", "／", "℀"]) + s[i + 1:]
        if rng.random() < 0.05:
            s = rng.choice([" ", "\t", "\x00\x1f ", "\n"]) + s
        out.append(s)
    return out


DELIM_ALPHABET = [":", "/", "?", "#", "[", "]", "@", "%", "a", "1", "."]


def delimiter_strings(maxlen, alphabet=None):
    return all_strings(alphabet or DELIM_ALPHABET, maxlen)


def soup_urls(rng, n, maxlen=14):
    pool = DELIM_ALPHABET + ["h", "v", "f", "+", "&", "=", ";", " ", "\t", "é", "%41", "%2F", "::", "//", "http:", "[::1]", "80", "-"]
    return ["".join(rng.choice(pool) for _ in range(rng.randint(0, maxlen))) for _ in range(n)]
