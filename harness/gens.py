"""Input generators shared by the property modules.  Everything random derives from
the rng passed in (seeded from VERIF_SEED); exhaustive parts do not depend on it."""
import itertools

# one representative per proof class of the quoter proofs
SQ_ALPHABET = ["%", "2", "4", "f", "F", "g", "G", "z", " ", "/", "+", "&", "é", "€", "😀", "\ud800"]
SQ_SMALL = ["%", "2", "f", "F", "g", " ", "/", "+", "é", "😀", "\ud800", "=", "a"]


def all_strings(alphabet, maxlen):
    for n in range(0, maxlen + 1):
        for t in itertools.product(alphabet, repeat=n):
            yield "".join(t)


def single_codepoints(full):
    if full:
        return [chr(c) for c in range(0x110000)]
    pts = set(range(0, 0x900))
    for b in (0x7F, 0x80, 0x7FF, 0x800, 0xFFFF, 0x10000, 0x10FFFF, 0xD7FF, 0xD800, 0xDBFF, 0xDC00, 0xDFFF, 0xE000):
        for d in (-2, -1, 0, 1, 2):
            if 0 <= b + d < 0x110000:
                pts.add(b + d)
    pts.update(range(0xD800, 0xE000, 37))
    pts.update(range(0x10000, 0x110000, 4099))
    return [chr(c) for c in sorted(pts)]


# characters that a narrowing conversion, a table lookup or a Unicode-aware predicate could
# mistake for an ASCII hex digit or for '%': same low byte (U+0141 'A', U+0430 '0', U+0466 'f',
# U+0125 '%'), same low 16 bits (U+10041), full-width and other Unicode digits/letters
ALIASES = ["\u0141", "\u0430", "\u0466", "\u0125", "\U00010041", "\uff21", "\uff11", "\u0661", "\u00b2"]
# KELVIN SIGN (lower() -> 'k'), LONG S (casefolds to 's'), dotted/dotless I, Arabic-Indic / full-width / superscript
# digits, full-width letters, MICRO SIGN, ordinal indicators (isalpha), ROMAN NUMERAL (isnumeric)
SCHEME_ALIASES = ["\u212a", "\u017f", "\u0130", "\u0131", "\u0663", "\uff11", "\u00b2", "\uff48", "\u00b5", "\u00aa", "\u2160", "\u00e9"]
HEXISH = list("0123456789abcdefABCDEF") + ["g", "G", "%", "é", "\ud800", " "] + ALIASES
CTX_L = ["", "a", "%", "%2"]
CTX_R = ["", "a", "%", "F"]


def escapes_in_context():
    for x in HEXISH:
        for y in HEXISH:
            for l in CTX_L:
                for r in CTX_R:
                    yield l + "%" + x + y + r


def alias_escapes():
    """'%' followed by two characters of which at least one only looks like a hex digit"""
    a = ALIASES + ["4", "a", "F"]
    return ["%" + x + y for x in a for y in a if not (x.isascii() and y.isascii())]


def escape_position_sweep(points):
    """every given code point in each of the two positions after a '%'"""
    out = []
    for c in points:
        out += ["%" + c + "1", "%4" + c, "x%" + c + c + "y"]
    return out


UNQ_TOKENS = ["%41", "%2F", "%2f", "%25", "%2B", "%26", "%3D", "%3B", "%20", "%C3", "%A9", "%c3%a9", "%E2", "%82",
              "%AC", "%F0", "%9F", "%98", "%80", "%ED", "%A0", "%E0", "%C0", "%F4", "%90", "%F5", "%FF",
              "%", "%4", "%zz", "+", "a", "/", "é", " ", "&", "=", ";", "%e2%82%ac", "%\u0430\u0141", "%4\u0466",
              "%aB", "%Ab", "%cE", "%Fd", "%eF%bB%Bf",   # hex letters of different case inside one escape
              "%2E", "%2e", "r%2Et", ".",   # an escaped dot is not a suffix separator, a real one is
              # boundary sequences of every UTF-8 length class (first/last valid, first invalid)
              "%C2%80", "%DF%BF", "%E0%A0%80", "%ED%9F%BF", "%EE%80%80", "%EF%BF%BF", "%F0%90%80%80", "%F3%BF%BF%BF",
              "%F4%80%80%80", "%F4%8F%BF%BF", "%f4%8f%bf%bf", "%F4%90%80%80", "%ED%A0%80", "%E0%9F%BF", "%F0%8F%BF%BF", "%C1%BF"]


def unq_strings(maxlen, tokens=None):
    tokens = tokens or UNQ_TOKENS
    for n in range(0, maxlen + 1):
        for t in itertools.product(tokens, repeat=n):
            yield "".join(t)


def random_mixed(rng, n, maxlen=40):
    pool = SQ_ALPHABET + list("abcXYZ019-._~!$'()*,:@?#[]=;\"<>\\^`{|}\t\n\x00\x7f") + ["%41", "%2f", "%C3%A9", "%e2%82%ac", "%zz", "\U0010ffff", "\udfff"] + ALIASES
    out = []
    for _ in range(n):
        ln = rng.randint(0, maxlen)
        out.append("".join(rng.choice(pool) for _ in range(ln)))
    return out


def growth_boundary_strings(rng, buf=8192, ks=(1, 2, 3)):
    """strings whose quoted output length lands on k*buf + d, d in -3..3"""
    out = []
    for k in ks:
        for d in range(-3, 4):
            target = k * buf + d
            for filler, unit in (("é", 6), (" ", 3), ("\x00", 3), ("%", 3)):
                n = target // unit
                rest = target - n * unit
                s = filler * n + "a" * rest
                # shuffle a few safe characters in so that 'changed' is set late/early
                out.append(s)
                out.append("a" * rest + filler * n)
    return out


def single_change_at_boundary(buf=8192, ks=(1, 2, 3)):
    """otherwise safe strings with exactly one changing element whose output lands on or next to
    offset k*buf: the only evidence that the result differs from the input"""
    out = []
    for k in ks:
        for d in (-3, -2, -1, 0, 1):
            n = k * buf + d
            if n < 0:
                continue
            for x in (" ", "%41", "%2f", "é", "%", "+"):
                out.append("a" * n + x + "a" * 7)
                out.append("a" * n + x)
    return out


# ---------------------------------------------------------------------------------
# URL level
# ---------------------------------------------------------------------------------
SCHEMES = ["http", "https", "ws", "wss", "ftp", "file", "x-y.z+1", "mailto", ""]
# (the last entries: every component begins with continuation-byte escapes and ends in a truncated multi-byte
# escape, or ends in a dangling '%': whatever a decoder/quoter keeps between two calls shows in the next component)
USERINFO = ["", "u@", "u:p@", "u:@", ":p@", "u%40x:p%3Ay@", "us%20er:pa%2Fss@", "U:P@", "a+b:c=d@", "é:ü@",
            "%A9x%C3:%A9y%C3@", "%82%ACu%E2:%ACp%E2%82@", "u%:41p%4@"]
HOSTS = ["example.com", "h", "127.0.0.1", "[::1]", "[fe80::1%25eth0]", "[2001:db8::ff00:42:8329]",
         "xn--bcher-kva.example", "EXAMPLE.Com", "bücher.example", "WWW.café.com", "EXAMPLE.пример.рф", "a.b.c.", "1.2.3", "[::ffff:1.2.3.4]",
         "h_x", "a-b.c", "", "[v1.x]", "h%41", "0x7f.1", "va.gov", "v1.example.com", "vf.fe80", "１２７.０.０.１", "192.168.1.１", "١٢٧.٠.٠.١", "1.2.3.４", "[0:0:0:0:0:0:0:1]", "XN--bcher-kva.example", "Xn--Bcher-Kva.EXAMPLE",
         "xn--bcher-kva.XN--p1ai", "BÜCHER.example", "ｅxample.com", "a。b", "[::1%25Eth0]", "[FE80::1]",
         # text that still looks escaped after one pass (a second pass must not touch it)
         "[fe80::1%2525]", "[fe80::1%252525eth0]", "[::1%25]", "h%2525"]
PORTS = ["", "", "", ":80", ":443", ":21", ":8080", ":0", ":65535", ":", ":081", ":80", ":8443"]
BAD_PORTS = [":65536", ":x", ":-1", ": 1", ":+1", ":1_0"]
PATHS = ["", "/", "/a", "/a/b", "/a/", "//a", "/a//b", "/a%2Fb/c", "/%C3%A9", "/a;p=1", "/a+b", "/a b",
         "/.", "/..", "/a/./b/../c", "/%2E/%2e%2E/x", "/a.b.c", "/.hidden", "/x.tar.gz", "/é/ü.txt", "/a%zz",
         "/a%", "/%41%2f", "/a:b", "/@", "/a?", "a", "a/b", "../a", "./a", "a:b", "a/../..", "/a/b/c/d.e.f",
         "/%A9p%C3/%A9n%C3", "/x%C3", "/%A9", "/n%E2%82", "/a%/41", "/archive.tar.", "/a..", "/.a.b.",
         # names that become a dot segment when their suffix is removed or replaced
         "/a/b/..txt", "/a/...tar", "/d/..x", "/report%2Etxt", "/a%2E%2E/b"]
QUERIES = ["", "?", "?a=1", "?a=1&b=2", "?a=1&a=2", "?a", "?a=", "?=1", "?a=b=c", "?a%26b=c%3Dd", "?a+b=c+d",
           "?a=%2B", "?x=é", "?a=1;b=2", "?a=1&&b=2", "?a=%FF", "?a=%E2%82", "?k=/?:@", "?a=b#c", "?%zz=1", "?a=1&", "?%A9k%C3=%A9v%C3", "?a=%C3", "?%A9=b", "?a=%", "?41=b"]
FRAGMENTS = ["", "#", "#f", "#f/g?h", "#%23", "#é", "#a b", "#a%zz", "#a#b", "#%A9f%C3", "#%82%ACf%E2", "#f%", "#41"]


def structured_urls(rng, n):
    out = []
    for _ in range(n):
        sc = rng.choice(SCHEMES)
        has_auth = rng.random() < 0.8
        s = sc + ":" if sc else ""
        if has_auth:
            s += "//" + rng.choice(USERINFO) + rng.choice(HOSTS) + (rng.choice(BAD_PORTS) if rng.random() < 0.04 else rng.choice(PORTS))
        s += rng.choice(PATHS) + rng.choice(QUERIES) + rng.choice(FRAGMENTS)
        if rng.random() < 0.1:
            # mutate one character
            if s:
                i = rng.randrange(len(s))
                s = s[:i] + rng.choice(list(":/?#[]@%. \t\n\x00é+&=;\\\"<>") + ["%2F", "%41", "\ud800", "／", "℀"]) + s[i + 1:]
        if rng.random() < 0.05:
            s = rng.choice([" ", "\t", "\x00\x1f ", "\n"]) + s
        out.append(s)
    return out


DELIM_ALPHABET = [":", "/", "?", "#", "[", "]", "@", "%", "a", "1", "."]


def delimiter_strings(maxlen, alphabet=None):
    return all_strings(alphabet or DELIM_ALPHABET, maxlen)


def soup_urls(rng, n, maxlen=14):
    pool = DELIM_ALPHABET + ["h", "v", "f", "+", "&", "=", ";", " ", "\t", "é", "%41", "%2F", "::", "//", "http:", "[::1]", "80", "-",
                             "%aB", "%cE", "%Fd", "%c3%A9"]
    return ["".join(rng.choice(pool) for _ in range(rng.randint(0, maxlen))) for _ in range(n)]


# ---------------------------------------------------------------------------------
# programs (operation sequences)
# ---------------------------------------------------------------------------------
TEXTS = ["", "a", "a b", "é", "a/b", "a%2Fb", "%", "%41", "a+b", "a&b=c", "a;b", "x:y", "@", "#", "?", ".", "..",
         "./a", "../a", "a/./b", "a//b", "/abs", "name.txt", ".hidden", "x.tar.gz", "a.", "[", "]", "a\tb", "\x00",
         "日本", "😀", "a\ud800b", "%zz", "%2", "%C3%A9", "A", "~", "!$'()*,", "\"<>\\^`{|}", " ", "..txt", "...tar"]
HOST_ARGS = ["h", "example.com", "EXAMPLE.COM", "bücher.example", "WWW.café.com", "bücher.Example.ORG", "127.0.0.1", "::1", "fe80::1%eth0", "[::1]", "",
             "a b", "a/b", "a@b", "a:b", "h_x", "Éx_.Com", "a／b", "1.2.3.4", "2001:DB8::1", "a%41", "a%zz", "xn--x-9fa.com",
             "fe80::1%a/b", "h.", "例え.テスト"]
PORT_ARGS = [None, 0, 1, 21, 80, 443, 8080, 65535, 65536, -1, True, False, 10 ** 6]
SCHEME_ARGS = ["http", "https", "HTTP", "ws", "wss", "ftp", "file", "x", "", "mailto", "a+b", "é", "1a", "ht tp"]


def rand_qvar(rng):
    r = rng.random()
    if r < 0.55:
        return rng.choice(TEXTS)
    if r < 0.6:
        return ["strsub", rng.choice(TEXTS)]
    if r < 0.8:
        return rng.choice([0, 1, -1, 42, 10 ** 12])
    if r < 0.94:
        return ["float", str(float(rng.choice([0.5, 1.0, -2.25, 1e20, 1e-7, 3.14, 0.0, -0.0, 1e16, 2.0])))]
    if r < 0.955:
        return rng.choice([["inf"], ["nan"]])
    if r < 0.97:
        return rng.choice([True, False])
    if r < 0.985:
        return None
    return ["other"]


def rand_qarg(rng, simple=False):
    r = rng.random()
    if r < 0.08:
        return None
    if r < 0.30:
        return rng.choice(["", "a=1", "a=1&b=2", "a=1&a=2", "x", "a+b=c%20d", "é=ü", "a=%zz", "k=%26%3D", "a=1&b", "a b=c d",
                           "a=1;b=2", "%41=%42", "a=#", "a=b=c"])
    keys = ["a", "b", "c", "a b", "é", "k&", "k=", "", "x+y"]
    n = rng.randint(0, 3)
    items = []
    for _ in range(n):
        k = rng.choice(keys)
        if simple:
            v = rng.choice(TEXTS[:20] + [1, 2])
        elif rng.random() < 0.15:
            v = ["list"] + [rand_qvar(rng) for _ in range(rng.randint(0, 3))]
        else:
            v = rand_qvar(rng)
        items.append([k, v])
    if r < 0.64:
        return ["map"] + items
    if r < 0.98:
        return ["seq"] + items
    if r < 0.99:
        return ["bytes"]
    return ["other"]


GOOD_HOSTS = ["h", "example.com", "EXAMPLE.COM", "bücher.example", "127.0.0.1", "::1", "fe80::1%eth0", "h_x", "1.2.3.4",
              "2001:DB8::1", "xn--x-9fa.com", "h.", "例え.テスト", "a-b.c"]
GOOD_PORTS = [None, 0, 1, 21, 80, 443, 8080, 65535]
GOOD_SCHEMES = ["http", "https", "HTTP", "ws", "wss", "ftp", "file", "x", "", "a+b"]


def pick(rng, good, any_, p_bad=0.12):
    return rng.choice(any_) if rng.random() < p_bad else rng.choice(good)


def rand_op(rng):
    name = rng.choice(["with_scheme", "with_user", "with_password", "with_host", "with_port", "with_path", "with_query",
                       "extend_query", "update_query", "without_query_params", "with_fragment", "with_name", "with_suffix",
                       "parent", "joinpath", "div", "origin", "relative", "pickle", "with_path", "with_query", "div"])
    t = lambda: rng.choice(TEXTS)  # noqa: E731
    b = lambda: rng.random() < 0.3  # noqa: E731
    if name == "with_scheme":
        return ["op", name, pick(rng, GOOD_SCHEMES, SCHEME_ARGS)]
    if name in ("with_user", "with_password", "with_fragment"):
        return ["op", name, rng.choice([None, t(), t()])]
    if name == "with_host":
        return ["op", name, pick(rng, GOOD_HOSTS, HOST_ARGS)]
    if name == "with_port":
        return ["op", name, pick(rng, GOOD_PORTS, PORT_ARGS)]
    if name == "with_path":
        return ["op", name, t(), b(), b(), b()]
    if name in ("with_query", "extend_query", "update_query"):
        return ["op", name, rand_qarg(rng)]
    if name == "without_query_params":
        return ["op", name, [rng.choice(["a", "b", "a b", "é", "zz"]) for _ in range(rng.randint(0, 2))]]
    if name in ("with_name", "with_suffix"):
        x = t() if name == "with_name" else rng.choice(["", ".", ".py", ".tar.gz", "py", ".a b", ".é", "./x", ".%41", ".."])
        return ["op", name, x, b(), b()]
    if name == "joinpath":
        return ["op", name, [t() for _ in range(rng.randint(0, 3))], b()]
    if name == "div":
        return ["op", name, t()]
    return ["op", name]


def rand_ctor(rng):
    r = rng.random()
    if r < 0.55:
        return ["url", structured_urls(rng, 1)[0]]
    if r < 0.65:
        return ["enc", structured_urls(rng, 1)[0]]
    # build
    use_auth = rng.random() < 0.2
    host = "" if use_auth else pick(rng, GOOD_HOSTS, HOST_ARGS)
    q = rand_qarg(rng) if rng.random() < 0.3 else None
    qs = rng.choice(["", "", "a=1", "a b=c", "x=%41"]) if q is None or rng.random() < 0.1 else ""
    return ["build", pick(rng, GOOD_SCHEMES, SCHEME_ARGS), rng.choice(["u:p@h:81", "h", "[::1]:80", "u@h", "u:@h:1", "a b@h", ":1"]) if use_auth else "",
            rng.choice([None, None, "u", "us er", "", "é:x"]), rng.choice([None, None, "p", "p@ss", ""]),
            host, pick(rng, GOOD_PORTS, PORT_ARGS) if (rng.random() < 0.5 and host) else None,
            rng.choice(["", "/", "/a/b", "/a b", "/../x", "/a%2Fb", "/é", "/a/./b", "/x.y"] + (["a", "."] if rng.random() < 0.2 else [])), q, qs,
            rng.choice(["", "f", "a b", "#", "é"]), rng.random() < 0.15]


def random_programs(rng, n, maxops=4):
    out = []
    for _ in range(n):
        prog = [["push", rand_ctor(rng)]]
        for _ in range(rng.randint(0, maxops)):
            if rng.random() < 0.12:
                prog.append(["push", rand_ctor(rng)])
                prog.append(["join"])
            else:
                prog.append(rand_op(rng))
        out.append(prog)
    return out


LEAD = ["", " ", "\t", "\n", "\r", "\x00", "\x1f", "\x0b", "\x0c", "\x1c", "\u00a0", "\x7f", "\x20\x09", "\x09\x20"]


def leading_runs(bodies, maxrun=2):
    """every leading run of up to maxrun characters from the C0/space set (and a few
    non-members) before each body, plus the same characters inside and after it"""
    import itertools
    singles = [" ", "\t", "\n", "\r", "\x00", "\x01", "\x1f", "\x0b", "\x0c", "\x7f", "\u00a0", "\x85", "!"]
    out = []
    for b in bodies:
        for n in range(0, maxrun + 1):
            for t in itertools.product(singles, repeat=n):
                out.append("".join(t) + b)
        for c in singles:
            out.append(b[: len(b) // 2] + c + b[len(b) // 2:])
            out.append(b + c)
    return out


# ---------------------------------------------------------------------------------
# canonical URLs (C04): candidates are assembled from atoms; the component texts are
# then filtered by the extracted Coq predicate canon_n, so generator and theorem agree
# ---------------------------------------------------------------------------------
CANON_LIT = list("abzAZ09-._~!$'()*,")
CANON_ESC = ["%20", "%25", "%22", "%3C", "%00", "%7F", "%C3%A9", "%E2%82%AC", "%F0%9F%98%80", "%FF", "%5B", "%7B"]
NONCANON = ["%7E", "%2f", "%c3%a9", " ", "é", "%41", "%", "%zz", "\"", "%2E"]


def _cand(rng, atoms, maxn):
    return "".join(rng.choice(atoms) for _ in range(rng.randint(0, maxn)))


def canon_candidates(rng, n):
    """returns n tuples (scheme, user, password, host, port, path, query, fragment) of
    candidate component texts (None = absent)"""
    ui_atoms = CANON_LIT + list("+&=;") + CANON_ESC + ["%40", "%3A", "%2F", "%3F", "%23"] + NONCANON[:4]
    path_atoms = CANON_LIT + list("+&=;:@") + CANON_ESC + ["%2F", "%2B", "%3F", "%23"] + NONCANON[:5]
    q_atoms = CANON_LIT + list("+&=;:@/?") + CANON_ESC + ["%26", "%3D", "%2B", "%3B", "%23"] + NONCANON[:5]
    f_atoms = CANON_LIT + list("+&=;:@/?") + CANON_ESC + ["%23"] + NONCANON[:5]
    hosts = ["example.com", "h", "a-b.c", "xn--bcher-kva.example", "a.b.c.", "127.0.0.1", "1.2.3", "[::1]",
             "[2001:db8::ff00:42:8329]", "[::ffff:102:304]", "h_x", "0x7f.1", "x1"]
    out = []
    for _ in range(n):
        sc = rng.choice(["http", "https", "ws", "wss", "ftp", "file", "x-y.z+1", "mailto", "", "", "git+ssh"])
        auth = rng.random() < 0.75
        user = password = host = port = None
        if auth:
            host = rng.choice(hosts)
            r = rng.random()
            if r < 0.25:
                user = _cand(rng, ui_atoms, 4) or "u"
            elif r < 0.45:
                user, password = (_cand(rng, ui_atoms, 3) or "u"), _cand(rng, ui_atoms, 3)
            elif r < 0.5:
                user, password = "", _cand(rng, ui_atoms, 3) or "p"
            if rng.random() < 0.4:
                port = str(rng.choice([0, 1, 21, 80, 443, 8080, 65535, 8443, 81]))
        segs = [_cand(rng, path_atoms, 3) for _ in range(rng.randint(0, 4))]
        path = "/".join(segs)
        if rng.random() < 0.7 or auth:
            path = ("/" + path) if (path or rng.random() < 0.5) else ""
        q = _cand(rng, q_atoms, 6) if rng.random() < 0.5 else ""
        f = _cand(rng, f_atoms, 5) if rng.random() < 0.4 else ""
        if not auth and sc not in ("http", "https", "ws", "wss", "ftp") and rng.random() < 0.15:
            # an EMPTY authority in front of a path that starts with "//": the only case in which the empty authority is
            # written out ("x:////a", "////a") - without it the path would read as an authority
            host = ""
            path = "//" + path.lstrip("/")
        out.append((sc, user, password, host, port, path, q, f))
    return out


def compose_canonical(t):
    sc, user, password, host, port, path, q, f = t
    s = sc + ":" if sc else ""
    if host is not None:
        s += "//"
        if user is not None:
            s += user
            if password is not None:
                s += ":" + password
            s += "@"
        s += host
        if port is not None:
            s += ":" + port
    s += path
    if q:
        s += "?" + q
    if f:
        s += "#" + f
    return s


DEFAULTS = {"http": "80", "https": "443", "ws": "80", "wss": "443", "ftp": "21"}


def canonical_side_conditions(t):
    """the URL-level conditions of the property statement that are not per-component"""
    sc, user, password, host, port, path, q, f = t
    if host == "":
        return user is None and port is None and path.startswith("//") and not any(x in (".", "..") for x in path.split("/"))
    if host is not None:
        if port is not None and DEFAULTS.get(sc) == port:
            return False
        if path and not path.startswith("/"):
            return False
        if any(s in (".", "..") for s in path.split("/")):
            return False
    else:
        if path.startswith("//"):
            return False
        if not sc and ":" in path.split("/")[0]:
            return False
    return True
