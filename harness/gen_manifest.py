"""Writes /verif/MANIFEST.json from the table below (kept in one place so the file
stays valid while properties are added)."""
import json
import os

VERIF = os.path.dirname(os.path.dirname(os.path.abspath(__file__)))

COMMON_NOTE = ("Trusted: Coq 8.16.1 kernel; no axioms (Print Assumptions output is recorded per theorem in the "
               "evidence; the thorough tier re-checks the compiled theorems with coqchk -o and records its axiom summary); hand-written Gallina model tied to /repo by regenerated tables (harness/gen_tables.py), by "
               "re-translation of yarl/_path.py, of yarl/_query.py, of unsplit_result / make_netloc / split_netloc (yarl/_parse.py) and of the constructors encode_url / pre_encoded_url / build / build_pre_encoded_url / from_parts_uncached, __str__ / __eq__ / ordering operators / accessors / modifiers / query operations / join (yarl/_url.py) from the source with proofs of equality to the model (harness/gen_model.py; C15_source_*, C07_source_*) "
               "and by a differential correspondence check of the extracted model (ExtrOcamlBasic only) against "
               "both quoting backends built from the working tree; extracted theorem predicates applied to the "
               "implementation's outputs.")

TECH = ("Coq proof (Rocq 8.16.1, kernel-checked, no axioms) over a hand-written Gallina model; tie to the source: tables regenerated from /repo each run, Python-ast-to-Gallina re-translation of _path.py, unsplit_result, make_netloc, encode_url, pre_encoded_url, __str__, __eq__, the ordering operators, 30 accessors, 13 modifiers, the four query operations, _make_child, joinpath, /, join, human_repr, build, build_pre_encoded_url, from_parts_uncached, split_netloc, _encode_host, the four functions of _query.py and three pinned library wrappers (78 functions) with equality proofs, "
        "extracted-model differential correspondence against both backends, extracted theorem predicates evaluated on the implementation's outputs")

CHECKS = {
    "C01": {
        "text": ('Proved (unbounded, both backends, all strings incl. lone surrogates and malformed escapes): every quoter output is '
                 "ASCII, every '%' starts an upper-case escape and every literal belongs to the RFC 3986 alphabet of its component "
                 '(C01_quoter_output; policy table by complete sweep of the regenerated tables). URL level, for EVERY operation sequence '
                 '(C01_programs, induction over the instruction list, one preservation lemma per operation): the stored path, query and '
                 'fragment of every URL produced by any program of auto-encoding constructors (URL(str), build), the 19 modifiers and join '
                 'satisfy the per-component predicate. PARTIAL: the userinfo/host part of the authority and the assembled string form over '
                 "operation sequences (with_user proved alone) are validated by the same extracted predicate on the implementation's "
                 'observations of 14k+ programs per run. Known findings F17 F20 F22 F26 are excluded by extracted classifiers.'),
        "design_ref": "DESIGN.md section 7 C01",
    },
    "C02": {
        "text": ('Proved (every string, both backends): for the plain quoters the canonical text stands for exactly the UTF-8 bytes of the '
                 "supplied text ('+' as space under qs) and decoding it gives the text back; for the requoters (constructor) the canonical "
                 'text stands for the bytes the supplied text stands for; DELIMITER STATUS: canonicalisation distributes over every '
                 "literal separator ('/' in paths; '&', '=', ';' in queries) and creates none - split sep (quote s) = map quote (split sep "
                 's) - so the number and boundaries of path segments and query pairs never change (C02_segments_and_pairs_preserved); an '
                 'escaped delimiter stays escaped (decode table by complete sweep, C04). PARTIAL: which component each entry point hands '
                 'to which quoter (URL-level composition) is the extracted predicate c02_pred on the implementation (component texts '
                 'exhaustive to length 2/3 over 25 class symbols plus alias code points, builders/modifiers over 60+ texts, untargeted '
                 'components of an all-escaped base). SOURCE TIE: yarl/_query.py (query_var, both serialisers, get_str_query) is re-translated from '
                 'the working tree on every run and proved equal to the model for every value of the exact-type flags (C02_source_query_functions). Known finding F1b.'),
        "design_ref": "DESIGN.md section 7 C02",
    },
    "C03": {
        "text": ('Proved: requoting is idempotent for the four requoters (all strings); dot-segment removal is idempotent; the parser '
                 'inverts printing (split_url (unsplit_result parts) = parts on re-parse-safe components, F14/F15 refuted witnesses); '
                 "canonical components re-encode to themselves; the constructor's output is canonical; URL-level fixed point "
                 'str(URL(str(u))) = str(u) with identical components for inputs with no authority or a plain ASCII host name, and '
                 '(C03_fixed_point_userinfo_port) for every accepted input whose authority is [user[:password]@]name[:port] with a plain '
                 'ASCII host name: same string, scheme, raw user, raw password, raw host, port (a dropped default port is the same '
                 'port), path, query, fragment; F30 as an explicit hypothesis; the same for every URL value satisfying the canonical-value '
                 'invariant, which with_port/with_user/with_password/with_fragment/with_query(str) preserve, hence for every chain of '
                 'these modifiers from such an input (C03_modifier_chains_fixed_point). PARTIAL: '
                 'IDNA/IP hosts and URLs reached through the other modifiers are checked on the implementation by re-parsing the '
                 'string form of every generated URL (two-stage programs); known findings F14 F15 F17 F30 excluded.'),
        "design_ref": "DESIGN.md section 7 C03",
    },
    "C04": {
        "text": ("Proved: canonical component text is returned unchanged by the component's requoter in either backend (all texts); every "
                 "requoter output is canonical; the literal (128 x 8) and decode (256 x 9) tables are exactly RFC 3986's by complete "
                 'sweeps; URL level: every canonical string with no authority or a plain lower-case ASCII host name is returned unchanged, '
                 'str(URL(s)) = s (C04_canonical_url_unchanged, with a non-vacuity example; F14, F15 and F27 are explicit exclusions), and '
                 'so is every canonical string whose authority is [user[:password]@]name[:port] with canonical userinfo, a plain '
                 'lower-case ASCII name and a non-default port (C04_canonical_url_unchanged_userinfo_port, with example). '
                 'PARTIAL: authorities with IDNA or IP hosts are validated on canonical URLs generated through the '
                 'extracted canon predicate, each parsed right after its twins (same path under another authority / without one).'),
        "design_ref": "DESIGN.md section 7 C04",
    },
    "C05": {
        "text": ('Proved: the model of the compiled quoter equals the model of the pure-Python quoter on every surrogate-free string for '
                 'every admissible configuration; the four unquoter configurations agree on EVERY string (both equal the decoding '
                 'specification); soundness of the changed flag; the shift-and-mask UTF-8 writer; the Writer delivers its input for every '
                 'buffer size (growth boundaries cannot matter). Lone-surrogate look-ahead residue (F1b) is a refuted witness. The tie to '
                 "both real backends is a three-way differential run incl. outputs crossing k*8192, every sampled code point after a '%', "
                 'alias code points, and URL-level observations.'),
        "design_ref": "DESIGN.md section 7 C05",
    },
    "C06": {
        "text": ('Proved: the unquoter models (both backends, four configurations) equal the independent greedy UTF-8 percent-decoding '
                 "specification Spec/Decode.v on EVERY string (malformed or undecodable escapes verbatim, '+' only in queries, path_safe "
                 'keeping %2F and %25), hence every decoded accessor is that decoding of its raw component; unquote(quote(t)) = t for the '
                 'accessor pairs; query parts read back through parse_qsl; URL-level read-back: with_fragment(t).fragment = t, '
                 'with_path(t).path = t (rooted t, no dot-segment removal), with_name(n).name = n, (u / s).name = s, with_query(pairs) '
                 "yields its pairs; the strict UTF-8 classifier accepts exactly the encoder's output for all scalar values (symbolic "
                 'proof). PARTIAL: read-back through build() and with_user/with_password is the extracted predicate c06_pred on the '
                 'implementation. Known finding F18 (query: U+FFFD).'),
        "design_ref": "DESIGN.md section 7 C06",
    },
    "C07": {
        "text": ('Proved: split_url is the RFC 3986 Appendix B decomposition of the cleaned input whenever it succeeds, fails only with '
                 'ValueError, the cleaning step and scheme alphabet are the specified ones, encoded=True stores the parts verbatim; '
                 'split_netloc is the authority split of the statement on all strings; for EVERY url value str() is the recomposition of '
                 'the raw accessors, with the two normalisations of __str__ explicit (an explicit default port is dropped and the '
                 "authority re-assembled from the raw parts; an empty path under an authority is printed '' when no query/fragment "
                 'follows), and fails only where an authority accessor fails (C07_recompose*); unsplit_result and make_netloc of '
                 'yarl/_parse.py and the constructors encode_url / pre_encoded_url of yarl/_url.py are re-translated from the source on '
                 'every run and proved equal to the model - same outcome on every input, same stored strings, same primed cache '
                 'entries; __str__, split_netloc, build, build_pre_encoded_url, from_parts_uncached and the four query operations likewise (C07_source_*). '
                 'PARTIAL: consistency of the stored '
                 'authority with the reported parts is an extracted predicate on the implementation (exhaustive delimiter strings, Unicode '
                 'aliases of scheme characters and digits), and so is the re-composition of URLs produced by operations (suite C07-derived: 10 bases x 31 '
                 'operations with the receiver fully read first, predicate c07_derived_pred incl. raw_path_qs). Known finding F17.'),
        "design_ref": "DESIGN.md section 7 C07",
    },
    "C08": {
        "text": ("Proved on the caching protocol (Model/Cache.v): a cache of any capacity (None, 0, n) with any valid contents returns f(k) and "
                 "keeps its invariant; every sequence of calls, cache_clear() and cache_configure() yields the outputs of the cache-free "
                 "function (instances: encode_url, split_netloc, the per-object memo over the 36 accessors). The URL model itself is purely "
                 "functional, so value/argument immutability holds there by construction. PARTIAL: that CPython's lru_cache/dict/propcache "
                 "implement the protocol and that no code writes a memo entry other than derive(key, stored strings) is checked by cold/warm "
                 "twin history runs (all results re-observed at the end, comparisons before/after hashing one operand), not proved."),
        "design_ref": "DESIGN.md section 7 C08",
    },
    "C09": {
        "text": ('Proved: pickling keeps exactly the five stored strings; the restored object is == with the same key; all 36 observed '
                 'accessors agree whenever the eagerly stored authority parts are what a lazy split derives; encode_url stores its '
                 'authority as make_netloc of exactly the eager parts; split_netloc inverts make_netloc (ports by complete sweep); closed '
                 'for the constructor: eager user/password delimiter-free, port in range, lazy = eager whenever the stored host is '
                 'non-empty and well-formed. PARTIAL: the host side condition for IDNA/IP oracle outputs, and values derived from USED '
                 '(hashed, printed, fully read) intermediates, are validated by correspondence (eager object vs unpickled twin, all '
                 'accessors, ==, hash), not proved; F7 and F30 refuted witnesses, F17 known finding.'),
        "design_ref": "DESIGN.md section 7 C09",
    },
    "C11": {
        "text": ("Proved for every URL value, modifier and argument: the stored scheme/path/query/fragment strings change only as the "
                 "modifier documents (frame_spec), non-authority modifiers keep the authority text, authority modifiers re-assemble it "
                 "from the current parts and the result reads those parts back (split_netloc inverts make_netloc) incl. IPv6 brackets, "
                 "explicit port, empty-vs-absent password; quoted user/password never contain a raw delimiter; with_scheme, with_user, "
                 "with_password, with_host, with_port, with_fragment, with_path, origin, relative and parent of yarl/_url.py are "
                 "re-translated from the source on every run and proved equal to the model functions (C11_source_*). The accessor-level frame "
                 "predicate is applied to the implementation on the 10752-base matrix x 47 modifier calls. Known findings F7, F17 excluded."),
        "design_ref": "DESIGN.md section 7 C11",
    },
    "C10": {
        "text": ("Proved on the model: == is the equality of the normalised 5-tuple (an equivalence), the ordering is a total preorder with "
                 "trichotomy, <= is < or ==; __eq__, _cmp_val and the four ordering operators of yarl/_url.py are re-translated from the source "
                 "on every run and proved equal to those definitions (C10_source_*). 'Never equal to a non-URL' is type-dispatch glue "
                 "probed on the implementation only."),
        "design_ref": "DESIGN.md section 7 C10",
    },
    "C12": {
        "text": ('Proved: the type gate of query values; None clears (with_query, update_query) or is a no-op (extend_query); parse_qsl '
                 "distributes over '&' hence extend_query appends; parse_qsl inverts the serialisation of any list of pairs, so "
                 'with_query(pairs) yields exactly its pairs in order; without_query_params re-serialises exactly the unnamed pairs. The '
                 "update clause is REFUTED on the faithful model of multidict 6.2.0's MultiDict.update (C12_update_refuted, known finding "
                 'F29) and proved for a single key. PARTIAL: mapping/list-valued/numeric arguments and the update clause outside F29 are '
                 'the extracted list-algebra predicate c12_pred on the implementation (existing queries incl. non-canonically spelled keys '
                 'x 4 operations x 190+ argument forms). Argument immutability is probed on the implementation. SOURCE TIE: with_query, extend_query, '
                 'update_query, without_query_params (yarl/_url.py) and get_str_query (yarl/_query.py) are re-translated from the working tree on every run '
                 'and proved equal to the model functions these theorems are about (C12_source_*).'),
        "design_ref": "DESIGN.md section 7 C12",
    },
    "C13": {
        "text": ('Proved: raw_parts re-compose to raw_path, the suffix is a tail of the name, u / s is u.joinpath(s), with_suffix keeps '
                 'the raw stem byte for byte; the path, name and parent parts of u / s (F28 refuted witness); with_name(n) has name n; '
                 'joinpath(a, c) = joinpath(a).joinpath(c) for every base URL, every pair of texts and either value of encoded whenever no '
                 "dot-segment removal is triggered; u / 'a/c' = joinpath(a, c); raw_parts, raw_name, raw_suffix, with_name, _with_raw_name and "
                 "with_suffix of yarl/_url.py are re-translated from the source on every run and proved equal to the model, their list "
                 "indexes never reached on an empty list (C13_source_*). PARTIAL: with_name's parent (equal only up to ==) and "
                 'associativity with dot segments under an authority (differs through F23) are the extracted predicate c13_pred on the '
                 'implementation (33 base shapes x 21 segments, all pairs).'),
        "design_ref": "DESIGN.md section 7 C13",
    },
    "C14": {
        "text": ('Proved: a reference with a different scheme or a base scheme outside USES_RELATIVE is returned unchanged; otherwise the '
                 'five encoded components of join are exactly RFC 3986 5.2.2 (non-strict) with 5.2.3 merge and 5.2.4 remove_dot_segments '
                 '(Spec/Resolve.v, transcribed independently) whenever the merged path is rooted; URL.join of yarl/_url.py is re-translated '
                 'from the source on every run and proved to never raise and to equal the model function (C14_source_join). '
                 'PARTIAL: rootless base + rootless '
                 'reference is outside the theorem; there known finding F19 (refuted witness) applies exactly when the merged path has a '
                 'dot segment; everything else is checked by the extracted transform predicate on ~75k base x reference pairs per run '
                 "(both backends), including every reference of <= 4 segments over {.., ., '', g}."),
        "design_ref": "DESIGN.md section 7 C14",
    },
    "C15": {
        "text": ('Proved: the model of normalize_path equals RFC 3986 5.2.4 remove_dot_segments (transcribed independently, string level) '
                 'on every rooted path, leaves no dot segment and is idempotent; the functions of yarl/_path.py as RE-TRANSLATED FROM THE '
                 'SOURCE on every run (harness/gen_model.py, Python ast -> Gallina, fail-closed) equal that model (C15_source_*), so these '
                 'theorems hold of what the source says now; URL level, for EVERY operation sequence (C15_programs): under an authority '
                 'the stored path is empty or rooted and has no dot segment - established by URL(str) and build, preserved by all 19 '
                 'modifiers (/ and joinpath for encoded=True too) and join; without an authority the constructor keeps the path verbatim. '
                 'PARTIAL: that the path equals RFC 5.2.4 of the supplied/merged text through build, / and joinpath is the extracted '
                 'predicate c15_url_pred on the implementation (join: C14). Known finding F23.'),
        "design_ref": "DESIGN.md section 7 C15",
    },
    "C16": {
        "text": ("Proved (oracle answers as explicit premises): the regenerated NOT_REG_NAME class is the RFC 3986 reg-name grammar; an ASCII "
                 "non-IP host is stored lower-cased and build()/with_host() accept it iff it is a reg-name; encoding is idempotent on names; "
                 "IP literals take the compressed spelling, IPv6 bracketed, zone verbatim; a stored host with ':' is always shown bracketed; "
                 "the NFKC screen rejects; _encode_host of yarl/_url.py is re-translated from the source on every run and proved equal to the "
                 "model (C16_source_encode_host), the IDNA helpers are pinned (C16_source_idna). IDNA-encoded hosts (lower-case ASCII output) and 'decoded host re-encodes' are checked by extracted "
                 "predicates on the implementation over a host corpus x 7 routes and all NFKC-hostile code points (thorough: every code point), "
                 "not proved. Known findings F17, F31 excluded."),
        "design_ref": "DESIGN.md section 7 C16",
    },
    "C17": {
        "text": ("Proved on the model for all authorities/schemes/ports: parsed ports lie in 0..65535 else ValueError, the default table is the "
                 "stated one, port falls back only when absent, 0 is not absent, is_default_port and str() elide exactly the default, "
                 "with_port rejects bools and out-of-range values; _cache_netloc, the explicit_port/raw_host getters, port, is_default_port, "
                 "host_subcomponent and host_port_subcomponent of yarl/_url.py are re-translated from the source on every run and proved "
                 "equal to the model's accessors (C17_source_*). Exhaustive scheme x port x host x route matrix on the implementation, "
                 "through both constructor modes."),
        "design_ref": "DESIGN.md section 7 C17",
    },
    "C18": {
        "text": ("Proved: human_quote shows printable text without '%' and without the delimiters of its position unchanged, and never "
                 'leaves such a delimiter raw; human_quote is a per-character rendering and RE-PARSING IT GIVES THE CANONICAL ENCODING OF '
                 'THE DECODED TEXT: requoter(human_quote t) = plain quoter t for user/password, path and fragment (either backend, every '
                 'surrogate-free t) and for the whole query string (C18_component_roundtrip, C18_stored_component_fixed, '
                 'C18_query_roundtrip); side conditions on the regenerated tables by complete ASCII sweeps; human_repr of yarl/_url.py is '
                 're-translated from the source on every run and proved equal to the model, human_quote is pinned (C18_source_*). '
                 'PARTIAL: the URL-level '
                 "composition (IDNA-decoded host, netloc assembly, the parser's split) is the extracted predicate c18_pred on builds from "
                 '70 decoded texts x IDN/IPv4/IPv6 hosts (both backends), not proved. Known finding F13.'),
        "design_ref": "DESIGN.md section 7 C18",
    },
    "C19": {
        "text": ("Proved on the model: every constructor, modifier, accessor and operation sequence returns or fails with ValueError/TypeError "
                 "(all inputs, all oracle answers); the Writer under an arbitrary allocator returns all-or-MemoryError and stays in bounds. "
                 "'str() of a returned object never fails' is refuted by a kernel-evaluated witness (known finding F17) and otherwise "
                 "validated by correspondence only (partial). Real allocator behaviour is exercised by fault injection "
                 "(_testcapi.set_nomemory), not proved."),
        "design_ref": "DESIGN.md section 7 C19",
    },
}

CHECKS["C20"] = {
    "text": ("Proved on the interleaving semantics of Model/Cache.v: for every schedule of the threads' atomic actions (lookup, insert after a "
             "miss) and every interleaved cache_clear()/cache_configure(), the cache invariant is preserved and every finished thread has "
             "produced exactly the sequential results (instance: threads sharing the encode_url cache). PARTIAL: the atomicity granularity "
             "(GIL; dict, lru_cache, one C-extension call; quoters keep no state between calls) is assumed; it is exercised by thread stress "
             "runs (8-32 threads, 1 microsecond switch interval, disturber thread, both backends) whose per-thread results must equal the "
             "extracted model's sequential results, and by a scan of the generated C for GIL release."),
    "design_ref": "DESIGN.md section 7 C20",
}

NOT_YET = {}


def main():
    props = [json.loads(l)["id"] for l in open(os.path.join(VERIF, "properties.jsonl"))]
    checks = []
    na = []
    for p in props:
        if p in CHECKS:
            c = CHECKS[p]
            checks.append({
                "property_id": p,
                "quick_cmd": f"./check {p} --tier quick",
                "thorough_cmd": f"./check {p} --tier thorough",
                "evidence_file": f"/verif/evidence/{p}.json",
                "replay_cmd_template": f"./check {p} --replay {{path}}",
                "engine": "coq+extracted-model",
                "level_claimed": {"category": "proof", "text": c["text"], "design_ref": c["design_ref"]},
                "level_note": c.get("note", COMMON_NOTE),
                "technique": c.get("technique", TECH),
            })
        else:
            na.append({"property_id": p, "reason": NOT_YET.get(
                p, "not claimed yet: the model and theorems for this property are still being built "
                   "(see DESIGN.md section 7 for the planned theorems); no check is registered until it is sound")})
    m = {
        "version": 1,
        "setup_cmd": "./setup.sh",
        "hooks": {
            "guard": "YARL_VERIF",
            "enable": "no source hook is needed: checks build a scratch overlay copy of /repo/yarl (both backends) under /verif/build",
            "baseline_off_cmd": "cd /repo && /venv/bin/python -m pytest -ra -q -p no:cacheprovider --timeout=900 --continue-on-collection-errors",
            "source_commits": [],
            "add_only": True,
        },
        "engines": [
            {"name": "coq", "path": "/verif/coq", "serves_properties": sorted(CHECKS),
             "kind_free_text": "Coq 8.16.1 development: Base, Model, Spec, Preds, Proofs, Properties (stdlib only)"},
            {"name": "extracted-model", "path": "/verif/ocaml", "serves_properties": sorted(CHECKS),
             "kind_free_text": "OCaml driver around the extracted model, theorem predicates and known-finding classifiers"},
            {"name": "harness", "path": "/verif/harness", "serves_properties": sorted(CHECKS),
             "kind_free_text": "Python: table translator, overlay build of both backends, generators, correspondence, evidence"},
        ],
        "checks": checks,
        "not_applicable": na,
        "notes": ("/repo carries unguarded 'fix:' commits for genuine defects (listed in /verif/known_findings.txt "
                  "as fixed:). Remaining genuine defects are listed there as finding: lines and reported as "
                  "KNOWN-FINDING by the checks."),
    }
    with open(os.path.join(VERIF, "MANIFEST.json"), "w") as f:
        json.dump(m, f, indent=1)
        f.write("\n")


if __name__ == "__main__":
    main()
