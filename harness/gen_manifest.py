"""Writes /verif/MANIFEST.json from the table below (kept in one place so the file
stays valid while properties are added)."""
import json
import os

VERIF = os.path.dirname(os.path.dirname(os.path.abspath(__file__)))

COMMON_NOTE = ("Trusted: Coq 8.16.1 kernel; no axioms (Print Assumptions output is recorded per theorem in the "
               "evidence); hand-written Gallina model tied to /repo by regenerated tables (harness/gen_tables.py) "
               "and by a differential correspondence check of the extracted model (ExtrOcamlBasic only) against "
               "both quoting backends built from the working tree; extracted theorem predicates applied to the "
               "implementation's outputs.")

CHECKS = {
    "C15": {
        "text": ("Unbounded theorems: the model of normalize_path equals RFC 3986 5.2.4 remove_dot_segments "
                 "(transcribed independently, string level) on every rooted path, leaves no dot segment and is "
                 "idempotent. The tie to the Python source is a differential run (exhaustive segment sequences "
                 "plus random) of model, pure and compiled implementation, and the extracted theorem predicate "
                 "evaluated on the implementation's outputs."),
        "design_ref": "DESIGN.md section 7 C15",
        "technique": "Coq proof over a Gallina model + extracted-model differential correspondence",
    },
}

NOT_YET = {}


def main():
    props = [json.loads(l)["id"] for l in open(os.path.join(VERIF, "properties.jsonl"))]
    checks = []
    na = []
    for p in props:
        if p in CHECKS:
            c = CHECKS[p]
            checks.append({
                "property_id": p,
                "quick_cmd": f"./check {p} --tier quick",
                "thorough_cmd": f"./check {p} --tier thorough",
                "evidence_file": f"/verif/evidence/{p}.json",
                "replay_cmd_template": f"./check {p} --replay {{path}}",
                "engine": "coq+extracted-model",
                "level_claimed": {"category": "proof", "text": c["text"], "design_ref": c["design_ref"]},
                "level_note": c.get("note", COMMON_NOTE),
                "technique": c["technique"],
            })
        else:
            na.append({"property_id": p, "reason": NOT_YET.get(
                p, "not claimed yet: the model and theorems for this property are still being built "
                   "(see DESIGN.md section 7 for the planned theorems); no check is registered until it is sound")})
    m = {
        "version": 1,
        "setup_cmd": "./setup.sh",
        "hooks": {
            "guard": "YARL_VERIF",
            "enable": "no source hook is needed: checks build a scratch overlay copy of /repo/yarl (both backends) under /verif/build",
            "baseline_off_cmd": "cd /repo && /venv/bin/python -m pytest -ra -q -p no:cacheprovider --timeout=900 --continue-on-collection-errors",
            "source_commits": [],
            "add_only": True,
        },
        "engines": [
            {"name": "coq", "path": "/verif/coq", "serves_properties": sorted(CHECKS),
             "kind_free_text": "Coq 8.16.1 development: Base, Model, Spec, Preds, Proofs, Properties (stdlib only)"},
            {"name": "extracted-model", "path": "/verif/ocaml", "serves_properties": sorted(CHECKS),
             "kind_free_text": "OCaml driver around the extracted model, theorem predicates and known-finding classifiers"},
            {"name": "harness", "path": "/verif/harness", "serves_properties": sorted(CHECKS),
             "kind_free_text": "Python: table translator, overlay build of both backends, generators, correspondence, evidence"},
        ],
        "checks": checks,
        "not_applicable": na,
        "notes": ("/repo carries unguarded 'fix:' commits for genuine defects (listed in /verif/known_findings.txt "
                  "as fixed:). Remaining genuine defects are listed there as finding: lines and reported as "
                  "KNOWN-FINDING by the checks."),
    }
    with open(os.path.join(VERIF, "MANIFEST.json"), "w") as f:
        json.dump(m, f, indent=1)
        f.write("\n")


if __name__ == "__main__":
    main()
