#!/bin/sh
# usage: try_seed.sh <seed-id> <check>...   applies the seeded change to /repo, runs the checks, undoes it.
# The evidence files of the unchanged tree are saved and restored (a seeded run must not
# leave its evidence behind).
ID=$1; shift
SAVE=$(mktemp -d /tmp/verif-ev.XXXXXX)
cp /verif/evidence/*.json $SAVE/ 2>/dev/null
git -C /repo apply /verif/seeded/$ID/patch.diff || { rm -rf $SAVE; exit 2; }
for c in "$@"; do (cd /verif && timeout 1800 ./check $c 2>&1 | grep -v "WARNING conda" | tail -2); done
git -C /repo checkout -- .
git -C /repo status --short
cp $SAVE/*.json /verif/evidence/ 2>/dev/null
rm -rf $SAVE
