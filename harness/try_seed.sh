#!/bin/sh
# usage: try_seed.sh <seed-id> <check>...   applies the seeded change to /repo, runs the checks, undoes it
ID=$1; shift
git -C /repo apply /verif/seeded/$ID/patch.diff || exit 2
if grep -q "_quoting_c.pyx" /verif/seeded/$ID/patch.diff; then echo "(pyx change: overlay rebuild will pick it up)"; fi
for c in "$@"; do (cd /verif && ./check $c 2>&1 | tail -2); done
git -C /repo checkout -- .
git -C /repo status --short
