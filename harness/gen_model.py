"""Source-to-Gallina translator for yarl/_path.py (the anchor of C15).

On every run the two functions of /repo's yarl/_path.py are parsed with `ast` and re-emitted
as Gallina definitions (coq/Generated/PathGen.v).  Proofs/GenPathProofs.v proves the
emitted functions equal to the hand-written model the C15 theorems are about
(Model/Path.v), so those theorems are re-checked against what the code says now.

The translator understands a small whitelisted subset of Python - exactly the idioms of
that file - and FAILS CLOSED on anything else: an unknown statement or expression raises
Untranslatable, the generated file then contains a stub (the empty function) together
with the reason, and the equivalence proof no longer checks.

Subset.  Types: str (list N), list of str, bool.  Statements: [x: T = e] / [x = e];
[for v in xs: if/elif chain] whose branches mutate one accumulator list by
[acc.append(e)] or [with suppress(IndexError): acc.pop()]; [if c: <assignments/appends>]
without else; [return e].  Expressions: names, str literals, [a + b] on str,
["c".join(e)], [e.split("c")], [e[1:]] on str, calls of functions defined earlier in the
same file, [a == "lit"], [a != "lit"], [x and x[0] == "c"], [xs and xs[-1] in ("a", "b")].
A Python list is a Coq list in the same order: append is [acc ++ [e]], pop under
suppress(IndexError) is [removelast acc] (removelast [] = [])."""
import ast


def cn(n):
    """Coq name of a Python function: underscores stripped; origin / _origin would clash."""
    return {"origin": "origin_pub"}.get(n, n.strip("_"))

import os
import sys


class Untranslatable(Exception):
    pass


def lit(s):
    if not isinstance(s, str):
        raise Untranslatable("non-str constant " + repr(s))
    return "[" + "; ".join(str(ord(c)) for c in s) + "]"


def one_char(node):
    if isinstance(node, ast.Constant) and isinstance(node.value, str) and len(node.value) == 1:
        return str(ord(node.value))
    raise Untranslatable("a one-character str literal is required: " + ast.dump(node))


class Fn:
    def __init__(self, known, tables=()):
        self.known = known        # name -> (argtypes, rettype) of functions translated so far
        self.tables = set(tables)  # module-level sets of strings available in Generated/Tables.v
        self.types = {}

    def ann(self, node):
        t = ast.unparse(node)
        if t == "str":
            return "str"
        if t in ("Sequence[str]", "list[str]", "List[str]"):
            return "strlist"
        raise Untranslatable("type annotation " + t)

    def coq_type(self, t):
        return {"str": "str", "strlist": "list str", "bool": "bool"}[t]

    # ---- expressions: returns (text, type)
    def expr(self, e):
        if isinstance(e, ast.Name):
            if e.id not in self.types:
                raise Untranslatable("unknown name " + e.id)
            return e.id, self.types[e.id]
        if isinstance(e, ast.Constant):
            return lit(e.value), "str"
        if isinstance(e, ast.List) and not e.elts:
            return "[]", "strlist"
        if isinstance(e, ast.BinOp) and isinstance(e.op, ast.Add):
            a, ta = self.expr(e.left)
            b, tb = self.expr(e.right)
            if ta == tb == "str":
                return f"({a} ++ {b})", "str"
            raise Untranslatable("+ on " + ta + "/" + tb)
        if isinstance(e, ast.JoinedStr):
            parts = []
            for v in e.values:
                if isinstance(v, ast.Constant):
                    parts.append(lit(v.value))
                elif isinstance(v, ast.FormattedValue) and v.conversion == -1 and v.format_spec is None:
                    t, tt = self.expr(v.value)
                    if tt != "str":
                        raise Untranslatable("f-string field of type " + tt)
                    parts.append(t)
                else:
                    raise Untranslatable("f-string " + ast.unparse(e))
            return "(" + " ++ ".join(parts or ["[]"]) + ")", "str"
        if isinstance(e, ast.IfExp):
            c = self.cond(e.test)
            a, ta = self.expr(e.body)
            b, tb = self.expr(e.orelse)
            if ta != tb:
                raise Untranslatable("branches of different types: " + ast.unparse(e))
            return f"(if {c} then {a} else {b})", ta
        if isinstance(e, ast.Subscript):
            v, tv = self.expr(e.value)
            s = e.slice
            if (tv == "str" and isinstance(s, ast.Slice) and s.upper is None and s.step is None
                    and isinstance(s.lower, ast.Constant) and s.lower.value == 1):
                return f"(tl {v})", "str"
            raise Untranslatable("subscript " + ast.unparse(e))
        if isinstance(e, ast.Call):
            f = e.func
            if e.keywords:
                raise Untranslatable("keyword arguments " + ast.unparse(e))
            if isinstance(f, ast.Attribute) and f.attr == "join" and len(e.args) == 1:
                sep = one_char(f.value)
                a, ta = self.expr(e.args[0])
                if ta != "strlist":
                    raise Untranslatable("join of " + ta)
                return f"(join [{sep}] {a})", "str"
            if isinstance(f, ast.Attribute) and f.attr == "split" and len(e.args) == 1:
                sep = one_char(e.args[0])
                a, ta = self.expr(f.value)
                if ta != "str":
                    raise Untranslatable("split of " + ta)
                return f"(split {sep} {a})", "strlist"
            if isinstance(f, ast.Name) and f.id in self.known:
                argt, rett = self.known[f.id]
                args = [self.expr(a) for a in e.args]
                if [t for _, t in args] != argt:
                    raise Untranslatable("argument types of " + f.id)
                return "(gen_" + f.id + " " + " ".join(a for a, _ in args) + ")", rett
            raise Untranslatable("call " + ast.unparse(e))
        raise Untranslatable("expression " + ast.unparse(e))

    def cond(self, e):
        """a condition: returns Coq bool text"""
        if isinstance(e, ast.Compare) and len(e.ops) == 1:
            op, l, r = e.ops[0], e.left, e.comparators[0]
            # x[:k] == "lit" / != : comparison of a prefix (slicing never raises)
            if isinstance(op, (ast.Eq, ast.NotEq)) and isinstance(l, ast.Subscript) and isinstance(l.slice, ast.Slice) \
                    and l.slice.lower is None and l.slice.step is None and isinstance(l.slice.upper, ast.Constant) \
                    and isinstance(l.slice.upper.value, int) and l.slice.upper.value >= 0 and isinstance(r, ast.Constant):
                v, tv = self.expr(l.value)
                if tv != "str":
                    raise Untranslatable("prefix of " + tv)
                t = f"(str_eqb (firstn {l.slice.upper.value} {v}) {lit(r.value)})"
                return t if isinstance(op, ast.Eq) else f"(negb {t})"
            # x in TABLE for a module-level set of strings regenerated in Generated/Tables.v
            if isinstance(op, ast.In) and isinstance(r, ast.Name) and r.id in self.tables:
                v, tv = self.expr(l)
                if tv != "str":
                    raise Untranslatable("membership of " + tv)
                return f"(existsb (str_eqb {v}) {r.id})"
            if isinstance(op, (ast.Eq, ast.NotEq)):
                a, ta = self.expr(l)
                b, tb = self.expr(r)
                if ta == tb == "str":
                    t = f"(str_eqb {a} {b})"
                    return t if isinstance(op, ast.Eq) else f"(negb {t})"
            raise Untranslatable("comparison " + ast.unparse(e))
        if isinstance(e, ast.BoolOp) and not self.guarded_index(e):
            parts = [self.cond(v) for v in e.values]
            op = " && " if isinstance(e.op, ast.And) else " || "
            return "(" + op.join(parts) + ")"
        if isinstance(e, ast.BoolOp) and isinstance(e.op, ast.And) and len(e.values) == 2:
            g, c = e.values
            # x and x[0] == "c"     /     xs and xs[-1] in ("a", "b")
            if isinstance(g, ast.Name) and isinstance(c, ast.Compare) and len(c.ops) == 1 \
                    and isinstance(c.left, ast.Subscript) and isinstance(c.left.value, ast.Name) \
                    and c.left.value.id == g.id and isinstance(c.left.slice, (ast.Constant, ast.UnaryOp)):
                idx = ast.literal_eval(c.left.slice)
                t = self.types.get(g.id)
                if t == "str" and idx == 0 and isinstance(c.ops[0], ast.Eq):
                    ch = one_char(c.comparators[0])
                    return f"(match {g.id} with c0 :: _ => N.eqb c0 {ch} | [] => false end)"
                if t == "strlist" and idx == -1 and isinstance(c.ops[0], ast.In) \
                        and isinstance(c.comparators[0], (ast.Tuple, ast.List)):
                    alts = [lit(ast.literal_eval(x)) for x in c.comparators[0].elts]
                    test = " || ".join(f"str_eqb l0 {a}" for a in alts) or "false"
                    return f"(match last_opt {g.id} with Some l0 => {test} | None => false end)"
            raise Untranslatable("condition " + ast.unparse(e))
        if isinstance(e, ast.Name) and self.types.get(e.id) in ("str", "strlist"):
            return f"(match {e.id} with [] => false | _ => true end)"
        raise Untranslatable("condition " + ast.unparse(e))

    def guarded_index(self, e):
        """x and x[0] == "c"  /  xs and xs[-1] in (...): the index is guarded by the truth of the same name"""
        if not (isinstance(e.op, ast.And) and len(e.values) == 2):
            return False
        g, c = e.values
        return (isinstance(g, ast.Name) and isinstance(c, ast.Compare) and isinstance(c.left, ast.Subscript)
                and isinstance(c.left.value, ast.Name) and c.left.value.id == g.id
                and not isinstance(c.left.slice, ast.Slice))

    # ---- mutation of an accumulator inside a loop / if body: returns new value text
    def mutation(self, st, acc):
        if isinstance(st, ast.Expr) and isinstance(st.value, ast.Call) and isinstance(st.value.func, ast.Attribute) \
                and isinstance(st.value.func.value, ast.Name) and st.value.func.value.id == acc:
            c = st.value
            if c.func.attr == "append" and len(c.args) == 1 and not c.keywords:
                a, ta = self.expr(c.args[0])
                if ta != "str":
                    raise Untranslatable("append of " + ta)
                return f"({acc} ++ [{a}])"
        if isinstance(st, ast.With) and len(st.items) == 1 and ast.unparse(st.items[0].context_expr) == "suppress(IndexError)" \
                and len(st.body) == 1 and ast.unparse(st.body[0]) == acc + ".pop()":
            return f"(removelast {acc})"
        raise Untranslatable("statement " + ast.unparse(st))

    def branch(self, body, acc):
        if len(body) != 1:
            raise Untranslatable("one statement per branch expected")
        return self.mutation(body[0], acc)

    def chain(self, node, acc):
        """if / elif chain mutating acc; a missing else leaves acc unchanged"""
        if not isinstance(node, ast.If):
            raise Untranslatable("if expected: " + ast.unparse(node))
        c = self.cond(node.test)
        t = self.branch(node.body, acc)
        if not node.orelse:
            f = acc
        elif len(node.orelse) == 1 and isinstance(node.orelse[0], ast.If):
            f = self.chain(node.orelse[0], acc)
        else:
            f = self.branch(node.orelse, acc)
        return f"(if {c} then {t} else {f})"

    def assign_chain_var(self, node):
        """the single variable assigned (once per branch) by every branch of an if/elif/else chain, or None"""
        names = set()
        cur = node
        while True:
            body = cur.body
            for b in body:
                if not (isinstance(b, (ast.Assign, ast.If))):
                    return None
            for b in ast.walk(cur):
                if isinstance(b, ast.Assign):
                    if len(b.targets) != 1 or not isinstance(b.targets[0], ast.Name):
                        return None
                    names.add(b.targets[0].id)
                elif isinstance(b, (ast.AugAssign, ast.AnnAssign, ast.For, ast.While, ast.With, ast.Return, ast.Call)) \
                        and not isinstance(b, ast.Call):
                    return None
            break
        if len(names) != 1:
            return None
        n = names.pop()
        return n if n in self.types else None

    def assign_chain(self, node, n):
        """value of variable n after the chain (n itself where a branch is missing)"""
        def block(stmts):
            if not stmts:
                return n
            if len(stmts) != 1:
                raise Untranslatable("one statement per branch expected")
            b = stmts[0]
            if isinstance(b, ast.Assign):
                v, tv = self.expr(b.value)
                if tv != self.types[n]:
                    raise Untranslatable("type change of " + n)
                return v
            if isinstance(b, ast.If):
                return self.assign_chain(b, n)
            raise Untranslatable("statement " + ast.unparse(b)[:60])
        c = self.cond(node.test)
        return f"(if {c} then {block(node.body)} else {block(node.orelse)})"

    def mutated(self, node):
        names = set()
        for n in ast.walk(node):
            if isinstance(n, ast.Call) and isinstance(n.func, ast.Attribute) and n.func.attr in ("append", "pop") \
                    and isinstance(n.func.value, ast.Name):
                names.add(n.func.value.id)
        return names

    def translate(self, fd):
        if fd.args.vararg or fd.args.kwarg or fd.args.kwonlyargs or fd.args.defaults or fd.decorator_list:
            raise Untranslatable("signature of " + fd.name)
        params = []
        for a in fd.args.args:
            t = self.ann(a.annotation)
            self.types[a.arg] = t
            params.append((a.arg, t))
        rett = self.ann(fd.returns)
        body = list(fd.body)
        if body and isinstance(body[0], ast.Expr) and isinstance(body[0].value, ast.Constant) and isinstance(body[0].value.value, str):
            body = body[1:]
        lets = []
        ret = None
        for st in body:
            if ret is not None:
                raise Untranslatable("statement after return")
            if isinstance(st, ast.AnnAssign) and isinstance(st.target, ast.Name) and st.value is not None:
                t = self.ann(st.annotation)
                v, tv = self.expr(st.value)
                if t != tv:
                    raise Untranslatable("annotation mismatch " + ast.unparse(st))
                self.types[st.target.id] = t
                lets.append(f"let {st.target.id} : {self.coq_type(t)} := {v} in")
            elif isinstance(st, ast.Assign) and len(st.targets) == 1 and isinstance(st.targets[0], ast.Name):
                v, tv = self.expr(st.value)
                n = st.targets[0].id
                if n in self.types and self.types[n] != tv:
                    raise Untranslatable("type change of " + n)
                self.types[n] = tv
                lets.append(f"let {n} : {self.coq_type(tv)} := {v} in")
            elif isinstance(st, ast.For) and isinstance(st.target, ast.Name) and isinstance(st.iter, ast.Name) and not st.orelse:
                it, tit = self.expr(st.iter)
                if tit != "strlist" or len(st.body) != 1:
                    raise Untranslatable("loop " + ast.unparse(st)[:60])
                accs = self.mutated(st)
                if len(accs) != 1:
                    raise Untranslatable("exactly one accumulator per loop")
                acc = accs.pop()
                if self.types.get(acc) != "strlist":
                    raise Untranslatable("accumulator " + acc)
                self.types[st.target.id] = "str"
                step = self.chain(st.body[0], acc)
                del self.types[st.target.id]
                lets.append(f"let {acc} : list str := fold_left (fun ({acc} : list str) ({st.target.id} : str) => {step}) {it} {acc} in")
            elif isinstance(st, ast.If) and st.orelse and self.assign_chain_var(st):
                n = self.assign_chain_var(st)
                lets.append(f"let {n} : {self.coq_type(self.types[n])} := {self.assign_chain(st, n)} in")
            elif isinstance(st, ast.If) and not st.orelse:
                c = self.cond(st.test)
                names, vals = [], []
                for b in st.body:
                    if isinstance(b, ast.Assign) and len(b.targets) == 1 and isinstance(b.targets[0], ast.Name):
                        n = b.targets[0].id
                        v, tv = self.expr(b.value)
                        if self.types.get(n) != tv:
                            raise Untranslatable("conditional assignment to " + n)
                    else:
                        accs = self.mutated(b)
                        if len(accs) != 1:
                            raise Untranslatable("statement " + ast.unparse(b))
                        n = accs.pop()
                        v = self.mutation(b, n)
                    if n in names:
                        raise Untranslatable("two updates of " + n + " in one branch")
                    # the branch is emitted as one simultaneous update: a later statement must not read a
                    # variable an earlier statement of the branch has just changed
                    for m in names:
                        if any(isinstance(x, ast.Name) and x.id == m for x in ast.walk(b)) and m != n:
                            raise Untranslatable("branch statements depend on each other")
                    names.append(n)
                    vals.append(v)
                if len(names) == 1:
                    lets.append(f"let {names[0]} : {self.coq_type(self.types[names[0]])} := if {c} then {vals[0]} else {names[0]} in")
                elif len(names) == 2:
                    # sequential semantics: the second value may mention the first variable's OLD value only
                    lets.append(f"let '({names[0]}, {names[1]}) := if {c} then ({vals[0]}, {vals[1]}) else ({names[0]}, {names[1]}) in")
                else:
                    raise Untranslatable("if with " + str(len(names)) + " updates")
            elif isinstance(st, ast.Return) and st.value is not None:
                v, tv = self.expr(st.value)
                if tv != rett:
                    raise Untranslatable("return type")
                ret = v
            else:
                raise Untranslatable("statement " + ast.unparse(st)[:80])
        if ret is None:
            raise Untranslatable("no return")
        ps = " ".join(f"({n} : {self.coq_type(t)})" for n, t in params)
        text = f"Definition gen_{fd.name} {ps} : {self.coq_type(rett)} :=\n  " + "\n  ".join(lets + [ret]) + "."
        return text, ([t for _, t in params], rett)


class TreeFn:
    """Second translation scheme, for straight-line decision code over optional values
    (yarl/_parse.py: make_netloc).  The body is read as a decision tree: every [if] is
    translated with the rest of the function as the continuation of both branches (a
    [return] ends a path), so that a test can NARROW the type of the variable it tests -
    [x is None] / [x is not None] on an Optional turns x into its payload in the other branch,
    truthiness of an Optional[str] turns it into a non-empty str in the true branch.
    Types: str, bool, int, Optional[str] ([Union[str, None]]), Optional[int].  Statements:
    [x = e], [if/elif/else], [return e], [return a if c else b].  Conditions: [and], [or],
    [not], [x is None], [x is not None], a name (truthiness of str / Optional[str] / bool).
    Expressions: names, str literals, f-strings over str and int fields ({n} of an int is its
    decimal text, str_of_N), calls of the listed module-level callables (here QUOTER, passed
    in as the parameter q).  Parameter defaults and an [@lru_cache] decorator are accepted and
    ignored (a cache over a pure function is the function: C08).  Anything else fails closed."""

    COQ = {"str": "str", "bool": "bool", "int": "N", "optstr": "option str", "optint": "option N"}

    def __init__(self, callables):
        self.callables = callables       # python name -> coq parameter name (str -> str)

    def ann(self, node):
        t = ast.unparse(node).replace(" ", "")
        m = {"str": "str", "bool": "bool", "int": "int", "Union[str,None]": "optstr", "Optional[str]": "optstr",
             "Union[int,None]": "optint", "Optional[int]": "optint"}
        if t in m:
            return m[t]
        raise Untranslatable("type annotation " + t)

    def expr(self, e, env):
        if isinstance(e, ast.Name):
            if e.id not in env:
                raise Untranslatable("unknown name " + e.id)
            return e.id, env[e.id]
        if isinstance(e, ast.Constant) and isinstance(e.value, str):
            return lit(e.value), "str"
        if isinstance(e, ast.JoinedStr):
            parts = []
            for v in e.values:
                if isinstance(v, ast.Constant):
                    parts.append(lit(v.value))
                elif isinstance(v, ast.FormattedValue) and v.conversion == -1 and v.format_spec is None:
                    t, tt = self.expr(v.value, env)
                    if tt == "str":
                        parts.append(t)
                    elif tt == "int":
                        parts.append(f"str_of_N {t}")
                    else:
                        raise Untranslatable("f-string field of type " + tt + ": " + ast.unparse(e))
                else:
                    raise Untranslatable("f-string " + ast.unparse(e))
            return "(" + " ++ ".join(parts or ["[]"]) + ")", "str"
        if isinstance(e, ast.Call) and isinstance(e.func, ast.Name) and e.func.id in self.callables \
                and len(e.args) == 1 and not e.keywords:
            a, ta = self.expr(e.args[0], env)
            if ta != "str":
                raise Untranslatable("argument of " + e.func.id + " of type " + ta)
            return f"({self.callables[e.func.id]} {a})", "str"
        raise Untranslatable("expression " + ast.unparse(e))

    def branch(self, test, env, then_k, else_k):
        if isinstance(test, ast.BoolOp):
            first, rest = test.values[0], test.values[1:]
            more = rest[0] if len(rest) == 1 else ast.BoolOp(op=test.op, values=rest)
            if isinstance(test.op, ast.And):
                return self.branch(first, env, lambda e1: self.branch(more, e1, then_k, else_k), else_k)
            return self.branch(first, env, then_k, lambda e1: self.branch(more, e1, then_k, else_k))
        if isinstance(test, ast.UnaryOp) and isinstance(test.op, ast.Not):
            return self.branch(test.operand, env, else_k, then_k)
        if isinstance(test, ast.Compare) and len(test.ops) == 1 and isinstance(test.left, ast.Name) \
                and isinstance(test.comparators[0], ast.Constant) and test.comparators[0].value is None \
                and isinstance(test.ops[0], (ast.Is, ast.IsNot)):
            x = test.left.id
            t = env.get(x)
            if t in ("str", "int"):
                # already narrowed on this path (or never optional): the test is statically decided
                return else_k(env) if isinstance(test.ops[0], ast.Is) else then_k(env)
            if t not in ("optstr", "optint"):
                raise Untranslatable("None test of " + x + " of type " + str(t))
            some_env = dict(env)
            some_env[x] = "str" if t == "optstr" else "int"
            none_k, some_k = (then_k, else_k) if isinstance(test.ops[0], ast.Is) else (else_k, then_k)
            return f"(match {x} with None => {none_k(env)} | Some {x} => {some_k(some_env)} end)"
        if isinstance(test, ast.Name):
            x = test.id
            t = env.get(x)
            if t == "optstr":
                e1 = dict(env)
                e1[x] = "str"
                return f"(match {x} with Some ((_ :: _) as {x}) => {then_k(e1)} | _ => {else_k(env)} end)"
            if t == "str":
                return f"(match {x} with _ :: _ => {then_k(env)} | [] => {else_k(env)} end)"
            if t == "bool":
                return f"(if {x} then {then_k(env)} else {else_k(env)})"
            raise Untranslatable("truthiness of " + x + " of type " + str(t))
        raise Untranslatable("condition " + ast.unparse(test))

    def stmts(self, body, env):
        if not body:
            raise Untranslatable("a path falls off the end of the function")
        st, rest = body[0], body[1:]
        if isinstance(st, ast.Expr) and isinstance(st.value, ast.Constant) and isinstance(st.value.value, str):
            return self.stmts(rest, env)
        if isinstance(st, ast.Return) and st.value is not None:
            if isinstance(st.value, ast.IfExp):
                v = st.value
                return self.branch(v.test, env, lambda e1: self.ret(v.body, e1), lambda e1: self.ret(v.orelse, e1))
            return self.ret(st.value, env)
        if isinstance(st, ast.Assign) and len(st.targets) == 1 and isinstance(st.targets[0], ast.Name):
            v, tv = self.expr(st.value, env)
            e1 = dict(env)
            e1[st.targets[0].id] = tv
            return f"(let {st.targets[0].id} : {self.COQ[tv]} := {v} in {self.stmts(rest, e1)})"
        if isinstance(st, ast.If):
            return self.branch(st.test, env, lambda e1: self.stmts(list(st.body) + rest, e1),
                               lambda e1: self.stmts(list(st.orelse) + rest, e1))
        raise Untranslatable("statement " + ast.unparse(st)[:80])

    def ret(self, e, env):
        v, tv = self.expr(e, env)
        if tv != self.rett:
            raise Untranslatable("return of type " + tv)
        return v

    def translate(self, fd):
        if fd.args.vararg or fd.args.kwarg or fd.args.kwonlyargs or fd.args.posonlyargs:
            raise Untranslatable("signature of " + fd.name)
        for d in fd.decorator_list:
            if ast.unparse(d).split("(")[0] not in ("lru_cache", "functools.lru_cache"):
                raise Untranslatable("decorator " + ast.unparse(d))
        for d in fd.args.defaults:
            if not (isinstance(d, ast.Constant) and d.value in (None, True, False)):
                raise Untranslatable("default value " + ast.unparse(d))
        env, params = {}, []
        for a in fd.args.args:
            if a.annotation is None:
                raise Untranslatable("parameter without annotation: " + a.arg)
            t = self.ann(a.annotation)
            env[a.arg] = t
            params.append((a.arg, t))
        self.rett = self.ann(fd.returns)
        body = self.stmts(list(fd.body), env)
        ps = " ".join(f"({c} : str -> str)" for c in self.callables.values())
        ps += " " + " ".join(f"({n} : {self.COQ[t]})" for n, t in params)
        return f"Definition gen_{fd.name} {ps} : {self.COQ[self.rett]} :=\n  {body}.", ([t for _, t in params], self.rett)


class ProcFn:
    """Third translation scheme, for procedures that may raise and that fill a per-object cache
    (yarl/_url.py: encode_url, pre_encoded_url).  Result type: [result gen_url] (Model/GenTypes.v) -
    the five stored strings and the cache as an association list, in the order of the stores.

    Like TreeFn the body is read as a decision tree with the rest of the function as the
    continuation of every branch, so tests narrow Optionals; in addition
      - a call of a function that may raise ([split_url], [split_netloc], [_encode_host]) is a bind
        in the result monad, [raise ValueError(...)] is [Err ValueError];
      - [a, b, c = f(x)] destructures the tuple;   [a = b = c = None] binds statically-None names;
      - [cache["key"] = e] appends [("key", value)] to the cache;  [self = object.__new__(URL)],
        [self._x = e] and [return self] build the record;
      - an [if] whose branches only re-assign existing str variables from total expressions and whose
        test needs no narrowing is emitted as an expression (no duplication of the continuation);
      - callees are the MODEL's functions (themselves tied to the source by translation or by the
        correspondence runs): the table CALLEES below is part of the trusted base.
    Conditions: truthiness of str / bool, ["c" in s], [s in TABLE], [x is None], [x is not None],
    truthiness of an Optional[str] (narrowing), [and] / [or] / [not].  Expressions: names, str literals,
    None, f-strings over str and int, [a if c else b], [h[1:-1]], calls of total callees with
    positional and keyword arguments (defaults from the table).  Anything else fails closed."""

    COQ = {"str": "str", "bool": "bool", "int": "N", "optstr": "option str", "optint": "option N"}
    # python name -> (coq head, [(param name, type, default text or None)], return type, may raise)
    CALLEES = {
        "split_url": ("split_url (o_nfkc O)", [("url", "str", None)], ("str", "str", "str", "str", "str"), True),
        "split_netloc": ("split_netloc", [("netloc", "str", None)], ("optstr", "optstr", "optstr", "optint"), True),
        "_encode_host": ("encode_host O", [("host", "str", None), ("validate_host", "bool", None)], "str", True),
        "REQUOTER": ("Q B REQUOTER", [("s", "str", None)], "str", False),
        "PATH_REQUOTER": ("Q B PATH_REQUOTER", [("s", "str", None)], "str", False),
        "QUERY_REQUOTER": ("Q B QUERY_REQUOTER", [("s", "str", None)], "str", False),
        "FRAGMENT_REQUOTER": ("Q B FRAGMENT_REQUOTER", [("s", "str", None)], "str", False),
        "normalize_path": ("normalize_path", [("path", "str", None)], "str", False),
        "make_netloc": ("make_netloc' B", [("user", "optstr", None), ("password", "optstr", None), ("host", "optstr", None),
                                           ("port", "optint", None), ("encode", "bool", "false")], "str", False),
    }
    TABLES = ("SCHEME_REQUIRES_HOST", "USES_AUTHORITY", "USES_RELATIVE")
    FIELDS = ("_scheme", "_netloc", "_path", "_query", "_fragment", "_cache")

    def coerce(self, text, have, want):
        if have == want:
            return text
        if have == "none" and want in ("optstr", "optint"):
            return "None"
        if (have, want) in (("str", "optstr"), ("int", "optint")):
            return f"(Some {text})"
        raise Untranslatable(f"a value of type {have} where {want} is expected: {text[:40]}")

    def cval(self, text, t):
        return {"str": f"(CStr {text})", "optstr": f"(COptStr {text})", "optint": f"(COptInt {text})",
                "int": f"(CInt {text})", "none": "CNone"}[t] if t in ("str", "optstr", "optint", "int", "none") else self.bad("cache value of type " + t)

    def bad(self, msg):
        raise Untranslatable(msg)

    # ---- total expressions
    def expr(self, e, env):
        if isinstance(e, ast.Name):
            t = env.get(e.id)
            if t is None or t in ("cache", "self"):
                raise Untranslatable("name " + e.id)
            return ("None" if t == "none" else e.id), t
        if isinstance(e, ast.Constant) and isinstance(e.value, str):
            return lit(e.value), "str"
        if isinstance(e, ast.Constant) and e.value is None:
            return "None", "none"
        if isinstance(e, ast.Constant) and isinstance(e.value, bool):
            return ("true" if e.value else "false"), "bool"
        if isinstance(e, ast.JoinedStr):
            parts = []
            for v in e.values:
                if isinstance(v, ast.Constant):
                    parts.append(lit(v.value))
                elif isinstance(v, ast.FormattedValue) and v.conversion == -1 and v.format_spec is None:
                    t, tt = self.expr(v.value, env)
                    if tt == "str":
                        parts.append(t)
                    elif tt == "int":
                        parts.append(f"str_of_N {t}")
                    else:
                        raise Untranslatable("f-string field of type " + tt + ": " + ast.unparse(e))
                else:
                    raise Untranslatable("f-string " + ast.unparse(e))
            return "(" + " ++ ".join(parts or ["[]"]) + ")", "str"
        if isinstance(e, ast.Subscript) and isinstance(e.slice, ast.Slice) and e.slice.step is None \
                and isinstance(e.slice.lower, ast.Constant) and e.slice.lower.value == 1 \
                and isinstance(e.slice.upper, ast.UnaryOp) and isinstance(e.slice.upper.op, ast.USub) \
                and isinstance(e.slice.upper.operand, ast.Constant) and e.slice.upper.operand.value == 1:
            v, tv = self.expr(e.value, env)
            if tv != "str":
                raise Untranslatable("slice of " + tv)
            return f"(removelast (tl {v}))", "str"
        if isinstance(e, ast.IfExp):
            c = self.cond_bool(e.test, env)
            if c in ("true", "false"):
                return self.expr(e.body if c == "true" else e.orelse, env)
            a, ta = self.expr(e.body, env)
            b, tb = self.expr(e.orelse, env)
            t = self.join(ta, tb)
            return f"(if {c} then {self.coerce(a, ta, t)} else {self.coerce(b, tb, t)})", t
        if isinstance(e, ast.Call) and isinstance(e.func, ast.Name) and e.func.id in self.CALLEES:
            head, params, rett, raises = self.CALLEES[e.func.id]
            if raises:
                raise Untranslatable("a call that may raise inside an expression: " + ast.unparse(e))
            return self.call_text(e, env), rett
        raise Untranslatable("expression " + ast.unparse(e))

    def join(self, ta, tb):
        if ta == tb:
            return ta
        for a, b in ((ta, tb), (tb, ta)):
            if a in ("str", "none") and b == "optstr":
                return "optstr"
            if a in ("int", "none") and b == "optint":
                return "optint"
            if a == "none" and b == "str":
                return "optstr"
            if a == "none" and b == "int":
                return "optint"
        raise Untranslatable(f"branches of types {ta} and {tb}")

    def call_text(self, e, env):
        head, params, rett, raises = self.CALLEES[e.func.id]
        given = {}
        if len(e.args) > len(params):
            raise Untranslatable("too many arguments: " + ast.unparse(e))
        for (pn, pt, pd), a in zip(params, e.args):
            given[pn] = a
        for kw in e.keywords:
            if kw.arg is None or kw.arg in given or kw.arg not in [p[0] for p in params]:
                raise Untranslatable("keyword " + ast.unparse(e))
            given[kw.arg] = kw.value
        args = []
        for pn, pt, pd in params:
            if pn in given:
                t, tt = self.expr(given[pn], env)
                args.append(self.coerce(t, tt, pt))
            elif pd is not None:
                args.append(pd)
            else:
                raise Untranslatable("missing argument " + pn + ": " + ast.unparse(e))
        return "(" + head + " " + " ".join(args) + ")"

    # ---- conditions
    def cond_bool(self, test, env):
        """a test that needs no narrowing, as a Coq bool"""
        # n == DEFAULT_PORTS.get(scheme)      (the table regenerated into Generated/Tables.v)
        if isinstance(test, ast.Compare) and len(test.ops) == 1 and isinstance(test.ops[0], ast.Eq) and isinstance(test.comparators[0], ast.Call) \
                and ast.unparse(test.comparators[0].func) == "DEFAULT_PORTS.get" and len(test.comparators[0].args) == 1 and not test.comparators[0].keywords:
            a, ta = self.expr(test.left, env)
            b, tb = self.expr(test.comparators[0].args[0], env)
            if ta == "int" and tb == "str":
                return f"(opt_N_eqb (Some {a}) (default_port {b}))"
            raise Untranslatable("comparison " + ast.unparse(test))
        if isinstance(test, ast.BoolOp):
            is_and = isinstance(test.op, ast.And)
            unit, zero = ("true", "false") if is_and else ("false", "true")
            parts = [self.cond_bool(v, env) for v in test.values]
            if zero in parts:
                return zero                 # statically decided (operands are side-effect free)
            parts = [x for x in parts if x != unit]
            if not parts:
                return unit
            return parts[0] if len(parts) == 1 else "(" + (" && " if is_and else " || ").join(parts) + ")"
        if isinstance(test, ast.UnaryOp) and isinstance(test.op, ast.Not):
            c = self.cond_bool(test.operand, env)
            return {"true": "false", "false": "true"}.get(c, f"(negb {c})")
        if isinstance(test, ast.Name):
            t = env.get(test.id)
            if t == "str":
                return f"(nonempty {test.id})"
            if t == "bool":
                return test.id
            if t == "none":
                return "false"
            raise Untranslatable("narrowing test")
        if isinstance(test, ast.Compare) and len(test.ops) == 1:
            op, l, r = test.ops[0], test.left, test.comparators[0]
            if isinstance(op, (ast.In, ast.NotIn)) and isinstance(r, ast.Name):
                if env.get(r.id) == "str":
                    t = f"(mem {one_char(l)} {r.id})"
                elif r.id in self.TABLES and isinstance(l, ast.Name) and env.get(l.id) == "str":
                    t = f"(str_in {l.id} {r.id})"
                else:
                    raise Untranslatable("membership " + ast.unparse(test))
                return t if isinstance(op, ast.In) else f"(negb {t})"
            if isinstance(op, (ast.Is, ast.IsNot)) and isinstance(l, ast.Name) and isinstance(r, ast.Constant) and r.value is None:
                t = env.get(l.id)
                if t in ("str", "int", "bool"):
                    return "false" if isinstance(op, ast.Is) else "true"
                if t == "none":
                    return "true" if isinstance(op, ast.Is) else "false"
                raise Untranslatable("narrowing test")
        raise Untranslatable("condition " + ast.unparse(test))

    def branch(self, test, env, then_k, else_k):
        try:
            c = self.cond_bool(test, env)
        except Untranslatable:
            c = None
        if c is not None:
            if c == "true":
                return then_k(env)
            if c == "false":
                return else_k(env)
            return f"(if {c} then {then_k(env)} else {else_k(env)})"
        if isinstance(test, ast.BoolOp):
            first, rest = test.values[0], test.values[1:]
            more = rest[0] if len(rest) == 1 else ast.BoolOp(op=test.op, values=rest)
            if isinstance(test.op, ast.And):
                return self.branch(first, env, lambda e1: self.branch(more, e1, then_k, else_k), else_k)
            return self.branch(first, env, then_k, lambda e1: self.branch(more, e1, then_k, else_k))
        if isinstance(test, ast.UnaryOp) and isinstance(test.op, ast.Not):
            return self.branch(test.operand, env, else_k, then_k)
        if isinstance(test, ast.Compare) and len(test.ops) == 1 and isinstance(test.left, ast.Name) \
                and isinstance(test.comparators[0], ast.Constant) and test.comparators[0].value is None \
                and isinstance(test.ops[0], (ast.Is, ast.IsNot)):
            x = test.left.id
            t = env.get(x)
            if t not in ("optstr", "optint"):
                raise Untranslatable("None test of " + x + " of type " + str(t))
            some_env = dict(env)
            some_env[x] = "str" if t == "optstr" else "int"
            none_env = dict(env)
            none_env[x] = "none"
            none_k, some_k = (then_k, else_k) if isinstance(test.ops[0], ast.Is) else (else_k, then_k)
            return f"(match {x} with None => {none_k(none_env)} | Some {x} => {some_k(some_env)} end)"
        if isinstance(test, ast.Name) and env.get(test.id) == "optstr":
            x = test.id
            e1 = dict(env)
            e1[x] = "str"
            return f"(match {x} with Some ((_ :: _) as {x}) => {then_k(e1)} | _ => {else_k(env)} end)"
        raise Untranslatable("condition " + ast.unparse(test))

    # ---- an [if] that only re-assigns existing str variables, as an expression
    def pure_if(self, st, env):
        names = []

        def collect(stmts):
            for b in stmts:
                if isinstance(b, ast.Assign) and len(b.targets) == 1 and isinstance(b.targets[0], ast.Name):
                    n = b.targets[0].id
                    if env.get(n) != "str":
                        raise Untranslatable("not a plain re-assignment")
                    if n not in names:
                        names.append(n)
                elif isinstance(b, ast.If):
                    collect(b.body)
                    collect(b.orelse)
                else:
                    raise Untranslatable("not an assignment-only branch")
        collect([st])
        tup = names[0] if len(names) == 1 else "(" + ", ".join(names) + ")"

        def block(stmts):
            if not stmts:
                return tup
            b, rest = stmts[0], stmts[1:]
            if isinstance(b, ast.Assign):
                v, tv = self.expr(b.value, env)
                if tv != "str":
                    raise Untranslatable("type change in an assignment-only branch")
                return f"(let {b.targets[0].id} : str := {v} in {block(rest)})"
            c = self.cond_bool(b.test, env)
            pat = names[0] if len(names) == 1 else "'" + tup
            return f"(let {pat} := (if {c} then {block(list(b.body))} else {block(list(b.orelse))}) in {block(rest)})"
        c = self.cond_bool(st.test, env)
        pat = names[0] if len(names) == 1 else "'" + tup
        return pat, f"(if {c} then {block(list(st.body))} else {block(list(st.orelse))})"

    # ---- statements (continuation style)
    def stmts(self, body, env, rec):
        if not body:
            raise Untranslatable("a path falls off the end of the function")
        st, rest = body[0], body[1:]
        k = lambda e1, r1=rec: self.stmts(rest, e1, r1)
        if isinstance(st, ast.Expr) and isinstance(st.value, ast.Constant) and isinstance(st.value.value, str):
            return k(env)
        if isinstance(st, ast.AnnAssign) and isinstance(st.target, ast.Name):
            if st.value is None:
                return k(env)                      # a bare declaration
            if isinstance(st.value, ast.Dict) and not st.value.keys:
                e1 = dict(env)
                e1[st.target.id] = "cache"
                return f"(let {st.target.id} : list (str * cval) := [] in {k(e1)})"
            raise Untranslatable("statement " + ast.unparse(st)[:80])
        if isinstance(st, ast.Raise) and isinstance(st.exc, ast.Call) and isinstance(st.exc.func, ast.Name) \
                and st.exc.func.id in ("ValueError", "TypeError") and st.cause is None:
            return f"(Err {st.exc.func.id})"
        if isinstance(st, ast.Return) and isinstance(st.value, ast.Name) and env.get(st.value.id) == "self":
            missing = [f for f in self.FIELDS if f not in rec]
            if missing:
                raise Untranslatable("fields not set before return: " + ", ".join(missing))
            return "(Ok (mk_gen_url " + " ".join(rec[f] for f in self.FIELDS) + "))"
        if isinstance(st, ast.If):
            try:
                pat, val = self.pure_if(st, env)
                return f"(let {pat} := {val} in {k(env)})"
            except Untranslatable:
                pass
            return self.branch(st.test, env, lambda e1: self.stmts(list(st.body) + rest, e1, rec),
                               lambda e1: self.stmts(list(st.orelse) + rest, e1, rec))
        if isinstance(st, ast.Assign):
            tg = st.targets
            v = st.value
            # a = b = c = None
            if len(tg) > 1 and all(isinstance(t, ast.Name) for t in tg) and isinstance(v, ast.Constant) and v.value is None:
                e1 = dict(env)
                for t in tg:
                    e1[t.id] = "none"
                return k(e1)
            if len(tg) != 1:
                raise Untranslatable("statement " + ast.unparse(st)[:80])
            t0 = tg[0]
            # self = object.__new__(URL)
            if isinstance(t0, ast.Name) and ast.unparse(v) == "object.__new__(URL)":
                e1 = dict(env)
                e1[t0.id] = "self"
                return self.stmts(rest, e1, {})
            # self._x = e
            if isinstance(t0, ast.Attribute) and isinstance(t0.value, ast.Name) and env.get(t0.value.id) == "self":
                if t0.attr not in self.FIELDS or t0.attr in rec:
                    raise Untranslatable("field " + t0.attr)
                r1 = dict(rec)
                if t0.attr == "_cache":
                    if isinstance(v, ast.Dict) and not v.keys:
                        r1[t0.attr] = "[]"
                    elif isinstance(v, ast.Name) and env.get(v.id) == "cache":
                        r1[t0.attr] = v.id
                    else:
                        raise Untranslatable("_cache must be the cache variable or {}")
                    return self.stmts(rest, env, r1)
                if isinstance(v, ast.IfExp):             # self._x = a if <test that narrows> else b
                    try:
                        self.cond_bool(v.test, env)
                    except Untranslatable:
                        mk = lambda val: (lambda e1: self.stmts([ast.Assign(targets=[t0], value=val)] + rest, e1, rec))
                        return self.branch(v.test, env, mk(v.body), mk(v.orelse))
                x, tx = self.expr(v, env)
                if tx != "str":
                    raise Untranslatable("field " + t0.attr + " of type " + tx)
                # the field keeps the value it has NOW: bind it under a fresh name
                fresh = "f" + t0.attr
                r1[t0.attr] = fresh
                return f"(let {fresh} : str := {x} in {self.stmts(rest, env, r1)})"
            # self._a, self._b, ... = t      for a tuple-valued variable t
            if isinstance(t0, ast.Tuple) and isinstance(v, ast.Name) and isinstance(env.get(v.id), tuple) \
                    and all(isinstance(x, ast.Attribute) and isinstance(x.value, ast.Name) and env.get(x.value.id) == "self" for x in t0.elts):
                comps = env[v.id][1]
                if len(comps) != len(t0.elts):
                    raise Untranslatable("tuple arity " + ast.unparse(st)[:60])
                r1 = dict(rec)
                for x, cn in zip(t0.elts, comps):
                    if x.attr not in self.FIELDS or x.attr in r1 or x.attr == "_cache" or env.get(cn) != "str":
                        raise Untranslatable("field " + x.attr)
                    r1[x.attr] = cn
                return self.stmts(rest, env, r1)
            # self._cache = {}
            if isinstance(t0, ast.Attribute) and isinstance(t0.value, ast.Name) and env.get(t0.value.id) == "self" \
                    and t0.attr == "_cache" and isinstance(v, ast.Dict) and not v.keys and "_cache" not in rec:
                r1 = dict(rec)
                r1["_cache"] = "[]"
                return self.stmts(rest, env, r1)
            # cache["key"] = e
            if isinstance(t0, ast.Subscript) and isinstance(t0.value, ast.Name) and env.get(t0.value.id) == "cache" \
                    and isinstance(t0.slice, ast.Constant) and isinstance(t0.slice.value, str):
                c = t0.value.id
                x, tx = self.expr(v, env)
                return f"(let {c} := {c} ++ [({lit(t0.slice.value)}, {self.cval(x, tx)})] in {k(env)})"
            # a, b, c = f(x)   /   a = f(x)   with f that may raise
            if isinstance(v, ast.Call) and isinstance(v.func, ast.Name) and v.func.id in self.CALLEES \
                    and self.CALLEES[v.func.id][3]:
                rett = self.CALLEES[v.func.id][2]
                call = self.call_text(v, env)
                e1 = dict(env)
                if isinstance(t0, ast.Tuple) and all(isinstance(x, ast.Name) for x in t0.elts):
                    if not isinstance(rett, tuple) or len(rett) != len(t0.elts):
                        raise Untranslatable("tuple arity " + ast.unparse(st)[:60])
                    for x, tx in zip(t0.elts, rett):
                        e1[x.id] = tx
                    pat = "(" + ", ".join(x.id for x in t0.elts) + ")"
                elif isinstance(t0, ast.Name) and not isinstance(rett, tuple):
                    e1[t0.id] = rett
                    pat = t0.id
                elif isinstance(t0, ast.Name):
                    comps = [f"{t0.id}_{i}" for i in range(len(rett))]
                    for x, tx in zip(comps, rett):
                        e1[x] = tx
                    e1[t0.id] = ("tuple", tuple(comps))
                    pat = "(" + ", ".join(comps) + ")"
                else:
                    raise Untranslatable("statement " + ast.unparse(st)[:80])
                return f"(match {call} with Err e => Err e | Ok {pat} => {k(e1)} end)"
            if isinstance(t0, ast.Name):
                if isinstance(v, ast.IfExp):
                    try:
                        self.cond_bool(v.test, env)
                        narrowing = False
                    except Untranslatable:
                        narrowing = True
                    if narrowing:
                        mk = lambda val: (lambda e1: self.stmts([ast.Assign(targets=[t0], value=val)] + rest, e1, rec))
                        return self.branch(v.test, env, mk(v.body), mk(v.orelse))
                x, tx = self.expr(v, env)
                e1 = dict(env)
                e1[t0.id] = tx
                if tx == "none":
                    return k(e1)
                return f"(let {t0.id} : {self.COQ[tx]} := {x} in {k(e1)})"
        raise Untranslatable("statement " + ast.unparse(st)[:80])

    def translate(self, fd):
        if fd.args.vararg or fd.args.kwarg or fd.args.kwonlyargs or fd.args.posonlyargs or fd.args.defaults:
            raise Untranslatable("signature of " + fd.name)
        for d in fd.decorator_list:
            if ast.unparse(d).split("(")[0] not in ("lru_cache", "functools.lru_cache"):
                raise Untranslatable("decorator " + ast.unparse(d))
        env, params = {}, []
        anns = {"str": "str", "Union[str, None]": "optstr", "Union[int, None]": "optint"}
        for a in fd.args.args:
            if a.annotation is None or ast.unparse(a.annotation) not in anns:
                raise Untranslatable("parameter " + a.arg)
            env[a.arg] = anns[ast.unparse(a.annotation)]
            params.append(a.arg)
        body = self.stmts(list(fd.body), env, {})
        ps = " ".join(f"({n} : {self.COQ[env[n]]})" for n in params)
        return f"Definition gen_{fd.name} {ps} : result gen_url :=\n  {body}.", (["str"] * len(params), "gen_url")


class MethFn(ProcFn):
    """Methods of class URL that read the object (yarl/_url.py: __str__, __eq__, _cmp_val and the
    four ordering operators).  [self] (and a second URL [other]) is a MODEL url value:
    [x._scheme] ... [x._fragment] are its stored strings; the cached properties listed in PROPS are
    the model's accessors, which may raise: every use is bound (in source order) before the
    statement that uses it, and [(n := self.prop)] binds n as well.  [n == DEFAULT_PORTS.get(s)] is
    the table lookup of the regenerated DEFAULT_PORTS.  [if type(other) is not URL: return
    NotImplemented] is type dispatch and is skipped (the second operand is a URL by assumption:
    the 'never equal to a non-URL' clause is probed on the implementation).  Tuples of str are
    lists; [<=] [<] [>=] [>] on them are Python's lexicographic comparisons (GenTypes.tuple_*).
    Return types are declared per method: [result str], [bool], [list str]."""

    STORED = {"_scheme": "u_scheme", "_netloc": "u_netloc", "_path": "u_path", "_query": "u_query", "_fragment": "u_fragment"}
    PROPS = {"explicit_port": ("explicit_port", "optint"), "host_subcomponent": ("host_subcomponent", "optstr"),
             "raw_user": ("raw_user", "optstr"), "raw_password": ("raw_password", "optstr"), "raw_host": ("raw_host", "optstr")}
    CALLEES = dict(ProcFn.CALLEES)
    CALLEES["make_netloc"] = ("make_netloc' B", [("user", "optstr", None), ("password", "optstr", None), ("host", "optstr", None),
                                                ("port", "optint", None), ("encode", "bool", "false")], "str", False)
    for _n in ("UNQUOTER", "PATH_UNQUOTER", "PATH_SAFE_UNQUOTER", "QS_UNQUOTER"):
        CALLEES[_n] = ("UQ B " + _n, [("s", "str", None)], "str", False)
    CALLEES["unsplit_result"] = ("unsplit_result", [("scheme", "str", None), ("netloc", "str", None), ("url", "str", None),
                                                    ("query", "str", None), ("fragment", "str", None)], "str", False)

    RT = {"rstr": (True, "str"), "bool": (False, "bool"), "strs": (False, "strs"), "str": (False, "str"),
          "roptstr": (True, "optstr"), "roptint": (True, "optint"), "rbool": (True, "bool"), "rmemo": (True, "memo")}
    MEMO_KEYS = {"raw_user": ("m_user", "optstr"), "raw_password": ("m_password", "optstr"),
                 "raw_host": ("m_host", "optstr"), "explicit_port": ("m_port", "optint")}

    def __init__(self, rett, methods):
        self.rett = rett          # a key of RT
        self.fallible, self.rtype = self.RT[rett]
        self.methods = methods    # name -> return type of methods translated so far
        self.fresh = 0

    def expr(self, e, env):
        if isinstance(e, ast.Attribute) and isinstance(e.value, ast.Name) and env.get(e.value.id) == "url" and e.attr in self.STORED:
            return f"({self.STORED[e.attr]} {e.value.id})", "str"
        if isinstance(e, ast.Tuple) and e.elts:
            parts = [self.expr(x, env) for x in e.elts]
            if any(t != "str" for _, t in parts):
                raise Untranslatable("tuple of non-str: " + ast.unparse(e))
            return "[" + "; ".join(x for x, _ in parts) + "]", "strs"
        if isinstance(e, ast.Call) and isinstance(e.func, ast.Attribute) and isinstance(e.func.value, ast.Name) \
                and env.get(e.func.value.id) == "url" and e.func.attr in self.methods and not e.args and not e.keywords:
            if self.methods[e.func.attr] == "rstr":
                raise Untranslatable("call of a method that may raise: " + ast.unparse(e))
            return f"(gen_{cn(e.func.attr)} {e.func.value.id})", self.methods[e.func.attr]
        if isinstance(e, ast.BoolOp) or isinstance(e, ast.Compare) or (isinstance(e, ast.UnaryOp) and isinstance(e.op, ast.Not)):
            return self.cond_bool(e, env), "bool"
        # self._cache["raw_user"] after self._cache_netloc()
        if isinstance(e, ast.Subscript) and ast.unparse(e.value) == "self._cache" and isinstance(e.slice, ast.Constant) \
                and e.slice.value in self.MEMO_KEYS and "%memo" in env:
            f, t = self.MEMO_KEYS[e.slice.value]
            return f"({f} {env['%memo']})", t
        # DEFAULT_PORTS.get(scheme)
        if isinstance(e, ast.Call) and ast.unparse(e.func) == "DEFAULT_PORTS.get" and len(e.args) == 1 and not e.keywords:
            a, ta = self.expr(e.args[0], env)
            if ta != "str":
                raise Untranslatable("DEFAULT_PORTS.get of " + ta)
            return f"(default_port {a})", "optint"
        # raw.rstrip(".")
        if isinstance(e, ast.Call) and isinstance(e.func, ast.Attribute) and e.func.attr == "rstrip" and len(e.args) == 1 and not e.keywords:
            a, ta = self.expr(e.func.value, env)
            if ta != "str":
                raise Untranslatable("rstrip of " + ta)
            return f"(rstrip [{one_char(e.args[0])}] {a})", "str"
        return super().expr(e, env)

    def cond_bool(self, test, env):
        if isinstance(test, ast.Compare) and len(test.ops) == 1:
            op, l, r = test.ops[0], test.left, test.comparators[0]
            # n == DEFAULT_PORTS.get(scheme)
            if isinstance(op, ast.Eq) and isinstance(r, ast.Call) and ast.unparse(r.func) == "DEFAULT_PORTS.get" and len(r.args) == 1:
                a, ta = self.expr(l, env)
                b, tb = self.expr(r.args[0], env)
                if ta == "int" and tb == "str":
                    return f"(opt_N_eqb (Some {a}) (default_port {b}))"
                raise Untranslatable("comparison " + ast.unparse(test))
            if isinstance(op, (ast.Eq, ast.NotEq, ast.Lt, ast.LtE, ast.Gt, ast.GtE)):
                try:
                    a, ta = self.expr(l, env)
                    b, tb = self.expr(r, env)
                except Untranslatable:
                    a = None
                if a is not None and ta == tb == "str" and isinstance(op, (ast.Eq, ast.NotEq)):
                    t = f"(str_eqb {a} {b})"
                    return t if isinstance(op, ast.Eq) else f"(negb {t})"
                if a is not None and ta == tb == "strs":
                    f = {ast.Eq: "key_eqb", ast.Lt: "tuple_lt", ast.LtE: "tuple_le", ast.Gt: "tuple_gt", ast.GtE: "tuple_ge"}.get(type(op))
                    if f:
                        return f"({f} {a} {b})"
        if isinstance(test, ast.Attribute):
            a, ta = self.expr(test, env)
            if ta == "str":
                return f"(nonempty {a})"
        if isinstance(test, ast.Compare) and len(test.ops) == 1 and isinstance(test.ops[0], ast.Eq) \
                and isinstance(test.left, ast.Subscript) and ast.unparse(test.left.slice) == "-1:" \
                and isinstance(test.comparators[0], ast.Constant):
            a, ta = self.expr(test.left.value, env)
            if ta == "str":
                return f"(str_eqb (last1 {a}) {lit(test.comparators[0].value)})"
        return super().cond_bool(test, env)

    # ---- hoisting of property reads (they may raise) out of a statement
    def hoist(self, node, env, binds):
        """rewrites node: every self.<prop> becomes a fresh name bound before the statement"""
        tr = self

        class H(ast.NodeTransformer):
            def visit_NamedExpr(self, n):
                v = self.visit(n.value)
                if not isinstance(n.target, ast.Name):
                    raise Untranslatable("walrus target")
                binds.append(("let", n.target.id, v))
                return ast.copy_location(ast.Name(id=n.target.id, ctx=ast.Load()), n)

            def visit_Call(self, n):
                # get_str_query(*args, **kwargs): the model's single query argument stands for the pair
                if ast.unparse(n) == "get_str_query(*args, **kwargs)" and env.get("args") == "qargs" and env.get("kwargs") == "qargs":
                    tr.fresh += 1
                    nm = f"get_str_query_{tr.fresh}"
                    binds.append(("bindq", nm, None))
                    return ast.copy_location(ast.Name(id=nm, ctx=ast.Load()), n)
                return self.generic_visit(n)

            def visit_Attribute(self, n):
                if isinstance(n.value, ast.Name) and env.get(n.value.id) == "url" and (
                        n.attr in tr.PROPS or (n.attr in tr.methods and tr.RT.get(tr.methods[n.attr], (False,))[0])):
                    tr.fresh += 1
                    nm = f"{n.attr}_{tr.fresh}"
                    binds.append(("bind", nm, (n.value.id, n.attr)))
                    return ast.copy_location(ast.Name(id=nm, ctx=ast.Load()), n)
                return self.generic_visit(n)
        import copy
        return H().visit(copy.deepcopy(node))

    def with_binds(self, binds, env, k):
        """emit the binds, then k(env')"""
        if not binds:
            return k(env)
        kind, nm, what = binds[0]
        e1 = dict(env)
        if kind == "bindq":
            if not self.fallible:
                raise Untranslatable("get_str_query in a method that returns " + self.rett)
            e1[nm] = "optstr"
            return f"(match get_query B q with Err e => Err e | Ok {nm} => {self.with_binds(binds[1:], e1, k)} end)"
        if kind == "bind":
            obj, prop = what
            if prop in self.PROPS:
                head, t = self.PROPS[prop]
            else:                       # a method of this file translated earlier, which may raise
                head, t = "gen_" + cn(prop), self.RT[self.methods[prop]][1]
            if not self.fallible:
                raise Untranslatable("a property that may raise in a method that returns " + self.rett)
            e1[nm] = t
            return f"(match {head} {obj} with Err e => Err e | Ok {nm} => {self.with_binds(binds[1:], e1, k)} end)"
        v, tv = self.expr(what, env)
        e1[nm] = tv
        return f"(let {nm} : {self.COQ2(tv)} := {v} in {self.with_binds(binds[1:], e1, k)})"

    def stmts(self, body, env, rec):
        if not body:
            raise Untranslatable("a path falls off the end of the function")
        st, rest = body[0], body[1:]
        if isinstance(st, ast.Expr) and isinstance(st.value, ast.Constant):
            return self.stmts(rest, env, rec)
        # type dispatch on the second operand
        if isinstance(st, ast.If) and ast.unparse(st.test) == "type(other) is not URL" and len(st.body) == 1 \
                and ast.unparse(st.body[0]) == "return NotImplemented" and not st.orelse:
            return self.stmts(rest, env, rec)
        if isinstance(st, ast.If):
            binds = []
            test = self.hoist(st.test, env, binds)
            return self.with_binds(binds, env, lambda e1: self.branch(
                test, e1, lambda e2: self.stmts(list(st.body) + rest, e2, rec), lambda e2: self.stmts(list(st.orelse) + rest, e2, rec)))
        if isinstance(st, ast.Return) and st.value is not None:
            binds = []
            val = self.hoist(st.value, env, binds)

            def fin(e1):
                if isinstance(val, ast.IfExp):
                    try:
                        self.cond_bool(val.test, e1)
                    except Untranslatable:
                        mk = lambda x: (lambda e2: self.stmts([ast.Return(value=x)], e2, rec))
                        return self.branch(val.test, e1, mk(val.body), mk(val.orelse))
                v, tv = self.expr(val, e1)
                v = self.coerce(v, tv, self.rtype)
                return f"(Ok {v})" if self.fallible else v
            return self.with_binds(binds, env, fin)
        # self._cache_netloc()
        if isinstance(st, ast.Expr) and ast.unparse(st.value) == "self._cache_netloc()":
            if not self.fallible or self.methods.get("_cache_netloc") != "rmemo":
                raise Untranslatable("_cache_netloc() here")
            self.fresh += 1
            nm = f"memo_{self.fresh}"
            e1 = dict(env)
            e1["%memo"] = nm
            return f"(match gen_cache_netloc self with Err e => Err e | Ok {nm} => {self.stmts(rest, e1, rec)} end)"
        # the body of _cache_netloc: c = self._cache; t = split_netloc(self._netloc); c[k1], ..., c[k4] = t
        if self.rett == "rmemo" and isinstance(st, ast.Assign) and ast.unparse(st.value) == "self._cache" \
                and len(st.targets) == 1 and isinstance(st.targets[0], ast.Name):
            e1 = dict(env)
            e1[st.targets[0].id] = "cachealias"
            return self.stmts(rest, e1, rec)
        if self.rett == "rmemo" and isinstance(st, ast.Assign) and len(st.targets) == 1 and isinstance(st.targets[0], ast.Name) \
                and isinstance(st.value, ast.Call) and isinstance(st.value.func, ast.Name) and st.value.func.id == "split_netloc" \
                and len(st.value.args) == 1 and not st.value.keywords:
            a, ta = self.expr(st.value.args[0], env)
            if ta != "str":
                raise Untranslatable("split_netloc of " + ta)
            nm = st.targets[0].id
            comps = [f"{nm}_{i}" for i in range(4)]
            e1 = dict(env)
            for x, tx in zip(comps, ("optstr", "optstr", "optstr", "optint")):
                e1[x] = tx
            e1[nm] = ("tuple", tuple(comps))
            return f"(match split_netloc {a} with Err e => Err e | Ok ({', '.join(comps)}) => {self.stmts(rest, e1, rec)} end)"
        if self.rett == "rmemo" and isinstance(st, ast.Assign) and len(st.targets) == 1 and isinstance(st.targets[0], ast.Tuple) \
                and isinstance(st.value, ast.Name) and isinstance(env.get(st.value.id), tuple) and not rest:
            comps = env[st.value.id][1]
            tg = st.targets[0].elts
            fields = {}
            if len(tg) != len(comps):
                raise Untranslatable("tuple arity")
            for x, cn in zip(tg, comps):
                if not (isinstance(x, ast.Subscript) and isinstance(x.value, ast.Name) and env.get(x.value.id) == "cachealias"
                        and isinstance(x.slice, ast.Constant) and x.slice.value in self.MEMO_KEYS and x.slice.value not in fields):
                    raise Untranslatable("store " + ast.unparse(x))
                f, t = self.MEMO_KEYS[x.slice.value]
                if env[cn] != t:
                    raise Untranslatable("type of " + x.slice.value)
                fields[f] = cn
            if len(fields) != 4:
                raise Untranslatable("all four authority keys must be stored")
            return "(Ok (mk_memo " + " ".join(fields[f] for f in ("m_user", "m_password", "m_host", "m_port")) + "))"
        if isinstance(st, ast.Assign) and len(st.targets) == 1 and isinstance(st.targets[0], ast.Name):
            binds = []
            val = self.hoist(st.value, env, binds)

            def fin(e1):
                v, tv = self.expr(val, e1)
                e2 = dict(e1)
                e2[st.targets[0].id] = tv
                if tv == "none":
                    return self.stmts(rest, e2, rec)
                return f"(let {st.targets[0].id} : {self.COQ2(tv)} := {v} in {self.stmts(rest, e2, rec)})"
            return self.with_binds(binds, env, fin)
        raise Untranslatable("statement " + ast.unparse(st)[:80])

    def COQ2(self, t):
        return {"strs": "list str", "memo": "memo"}.get(t) or self.COQ[t]

    def translate(self, fd):
        if fd.args.vararg or fd.args.kwarg or fd.args.kwonlyargs or fd.args.posonlyargs or fd.args.defaults:
            raise Untranslatable("signature of " + fd.name)
        for d in fd.decorator_list:
            if ast.unparse(d) != "cached_property":     # a memo over a pure getter is the getter (C08)
                raise Untranslatable("decorator " + ast.unparse(d))
        names = [a.arg for a in fd.args.args]
        if names not in (["self"], ["self", "other"]):
            raise Untranslatable("parameters of " + fd.name)
        env = {n: "url" for n in names}
        body = self.stmts(list(fd.body), env, {})
        ps = " ".join(f"({n} : url)" for n in names)
        base = {"str": "str", "bool": "bool", "strs": "list str", "optstr": "option str", "optint": "option N", "memo": "memo"}[self.rtype]
        rt = f"result ({base})" if self.fallible else base
        return f"Definition gen_{cn(fd.name)} {ps} : {rt} :=\n  {body}.", (["url"] * len(names), self.rett)


METHOD_PARAMS = {}     # method name -> [(parameter, default or None)] in the order of the generated definition


class ModFn(MethFn):
    """Modifiers of class URL (with_scheme, with_user, with_password, with_host, with_fragment): methods
    with further parameters of the documented types (str, Optional[str]) that return a new URL through
    [from_parts] or raise.  [isinstance(x, str)] is decided by the declared type (arguments of
    undocumented types are outside the property); [x.lower()] is the oracle py_lower (str.lower);
    [opt or ""] is opt_or_empty; [pass] is skipped."""

    portarg = False
    RT = dict(MethFn.RT)
    RT["rurl"] = (True, "url")
    RT["url"] = (False, "url")
    RT["rstr"] = (True, "str")
    RT["rstrs"] = (True, "strs")
    CALLEES = dict(MethFn.CALLEES)
    for _n in ("QUOTER", "FRAGMENT_QUOTER", "PATH_QUOTER", "QUERY_QUOTER"):
        CALLEES[_n] = ("Q B " + _n, [("s", "str", None)], "str", False)
    CALLEES["_idna_decode"] = ("idna_decode O", [("raw", "str", None)], "str", True)
    CALLEES["human_quote"] = ("human_quote", [("s", "str", None), ("unsafe", "str", None)], "str", True)
    CALLEES["normalize_path_segments"] = ("normalize_path_segments", [("segments", "strs", None)], "strs", False)
    CALLEES["from_parts"] = ("from_parts", [("scheme", "str", None), ("netloc", "str", None), ("path", "str", None),
                                            ("query", "str", None), ("fragment", "str", None)], "url", False)

    # from_parts_uncached is from_parts without the lru_cache: the same value (C07_source_from_parts_uncached)
    CALLEES["from_parts_uncached"] = CALLEES["from_parts"]

    def expr(self, e, env):
        if isinstance(e, ast.BoolOp) and isinstance(e.op, ast.Or) and len(e.values) == 2 \
                and isinstance(e.values[1], ast.Constant) and e.values[1].value == "":
            a, ta = self.expr(e.values[0], env)
            if ta == "optstr":
                return f"(opt_or_empty {a})", "str"
            if ta == "str":
                return a, "str"
        if isinstance(e, ast.Call) and isinstance(e.func, ast.Attribute) and e.func.attr == "lower" and not e.args and not e.keywords:
            a, ta = self.expr(e.func.value, env)
            if ta == "str":
                return f"(py_lower O {a})", "str"
        if isinstance(e, ast.Name) and env.get(e.id) == "url":
            return e.id, "url"
        if isinstance(e, ast.Name) and env.get(e.id) == "strs":
            return e.id, "strs"
        # a or b   on two str values
        if isinstance(e, ast.BoolOp) and isinstance(e.op, ast.Or) and len(e.values) == 2:
            try:
                a, ta = self.expr(e.values[0], env)
                b, tb = self.expr(e.values[1], env)
            except Untranslatable:
                ta = tb = None
            if ta == tb == "str":
                return f"(if nonempty {a} then {a} else {b})", "str"
        if isinstance(e, ast.BinOp) and isinstance(e.op, ast.Add):
            a, ta = self.expr(e.left, env)
            b, tb = self.expr(e.right, env)
            if ta == tb == "str":
                return f"({a} ++ {b})", "str"
            raise Untranslatable("+ on " + str(ta) + "/" + str(tb))
        if isinstance(e, ast.Subscript) and ast.unparse(e.slice) == "1:":
            a, ta = self.expr(e.value, env)
            if ta == "str":
                return f"(tl {a})", "str"
        if isinstance(e, ast.Tuple) and not e.elts:
            return "[]", "strs"
        if isinstance(e, ast.Tuple) and e.elts and not any(isinstance(x, ast.Starred) for x in e.elts):      # (a, b) passed as a Sequence[str]
            xs = [self.expr(x, env) for x in e.elts]
            if all(t == "str" for _, t in xs):
                return "[" + "; ".join(a for a, _ in xs) + "]", "strs"
            raise Untranslatable("tuple " + ast.unparse(e))
        if isinstance(e, ast.Call) and isinstance(e.func, ast.Name) and e.func.id == "str" and len(e.args) == 1 and not e.keywords:
            a, ta = self.expr(e.args[0], env)        # str(x) of a value that is a str already (exact type only: the models pass str)
            if ta == "str":
                return a, "str"
            raise Untranslatable("str() of " + str(ta))
        if isinstance(e, ast.Call) and isinstance(e.func, ast.Name) and e.func.id == "bool" and len(e.args) == 1 and not e.keywords \
                and isinstance(e.args[0], ast.BoolOp) and isinstance(e.args[0].op, ast.Or):
            xs = [self.expr(x, env) for x in e.args[0].values]      # bool(a or b or c) on str values: some one is non-empty
            if all(t == "str" for _, t in xs):
                return "(" + " || ".join(f"(nonempty {a})" for a, _ in xs) + ")", "bool"
            raise Untranslatable("bool() of " + ast.unparse(e.args[0]))
        if isinstance(e, ast.Call) and isinstance(e.func, ast.Attribute) and e.func.attr == "lstrip" and len(e.args) == 1 and not e.keywords:
            a, ta = self.expr(e.func.value, env)
            if ta == "str":
                return f"(lstrip [{one_char(e.args[0])}] {a})", "str"
        if isinstance(e, ast.BinOp) and isinstance(e.op, ast.Add) and isinstance(e.left, ast.Constant) and isinstance(e.left.value, str):
            b, tb = self.expr(e.right, env)
            if tb == "str":
                return f"({lit(e.left.value)} ++ {b})", "str"
        # tuple(F(x) for x in xs)
        if isinstance(e, ast.Call) and isinstance(e.func, ast.Name) and e.func.id == "tuple" and len(e.args) == 1 \
                and isinstance(e.args[0], ast.GeneratorExp) and len(e.args[0].generators) == 1 \
                and not e.args[0].generators[0].ifs and isinstance(e.args[0].generators[0].target, ast.Name):
            g = e.args[0].generators[0]
            xs, txs = self.expr(g.iter, env)
            if txs == "strs":
                e1 = dict(env)
                e1[g.target.id] = "str"
                body, tb = self.expr(e.args[0].elt, e1)
                if tb == "str":
                    return f"(map (fun {g.target.id} : str => {body}) {xs})", "strs"
        # s.rfind("c"): the index of the last occurrence, None for Python's -1
        if isinstance(e, ast.Call) and isinstance(e.func, ast.Attribute) and e.func.attr == "rfind" and len(e.args) == 1 and not e.keywords:
            a, ta = self.expr(e.func.value, env)
            if ta == "str":
                return f"(rfind {one_char(e.args[0])} {a})", "optidx"
        # s[i:] for an index found by rfind, s[:-len(t)] for a non-empty t
        if isinstance(e, ast.Subscript) and isinstance(e.slice, ast.Slice) and e.slice.upper is None and e.slice.step is None \
                and isinstance(e.slice.lower, ast.Name) and env.get(e.slice.lower.id) == "idx":
            a, ta = self.expr(e.value, env)
            if ta == "str":
                return f"(drop {e.slice.lower.id} {a})", "str"
        if isinstance(e, ast.Subscript) and isinstance(e.slice, ast.Slice) and e.slice.lower is None and e.slice.step is None \
                and isinstance(e.slice.upper, ast.UnaryOp) and isinstance(e.slice.upper.op, ast.USub) \
                and isinstance(e.slice.upper.operand, ast.Call) and ast.unparse(e.slice.upper.operand.func) == "len" \
                and len(e.slice.upper.operand.args) == 1 and isinstance(e.slice.upper.operand.args[0], ast.Name) \
                and env.get("%nonempty:" + e.slice.upper.operand.args[0].id):
            a, ta = self.expr(e.value, env)
            b, tb = self.expr(e.slice.upper.operand.args[0], env)
            if ta == tb == "str":
                return f"(take (len {a} - len {b}) {a})", "str"       # s[:-k] with k > 0
        # ("/", *xs) / ("/",) / tuple(xs) / list(xs)
        if isinstance(e, ast.Tuple) and e.elts and isinstance(e.elts[0], ast.Constant) and isinstance(e.elts[0].value, str):
            if len(e.elts) == 1:
                return f"[{lit(e.elts[0].value)}]", "strs"
            if len(e.elts) == 2 and isinstance(e.elts[1], ast.Starred):
                a, ta = self.expr(e.elts[1].value, env)
                if ta == "strs":
                    return f"({lit(e.elts[0].value)} :: {a})", "strs"
        if isinstance(e, ast.Call) and isinstance(e.func, ast.Name) and e.func.id in ("tuple", "list") and len(e.args) == 1 and not e.keywords:
            a, ta = self.expr(e.args[0], env)
            if ta == "strs":
                return a, "strs"
        if isinstance(e, ast.Subscript) and ast.unparse(e.slice) == "1:":
            a, ta = self.expr(e.value, env)
            if ta == "strs":
                return f"(tl {a})", "strs"
        # xs[-1] / xs[0] on a list of str that the enclosing statement has checked to be non-empty
        if isinstance(e, ast.Subscript) and isinstance(e.value, ast.Name) and env.get(e.value.id) == "strs" \
                and ast.unparse(e.slice) in ("-1", "0") and e.value.id in getattr(self, "nonempty_checked", ()):
            if ast.unparse(e.slice) == "-1":
                return f"(match last_opt {e.value.id} with Some x0 => x0 | None => [] end)", "str"
            return f"(match {e.value.id} with x0 :: _ => x0 | [] => [] end)", "str"
        if isinstance(e, ast.IfExp) and isinstance(e.test, ast.Name) and env.get(e.test.id) == "strs" \
                and isinstance(e.body, ast.Subscript) and ast.unparse(e.body.value) == e.test.id and ast.unparse(e.body.slice) == "-1":
            b, tb = self.expr(e.orelse, env)
            if tb == "str":
                return f"(match last_opt {e.test.id} with Some x0 => x0 | None => {b} end)", "str"
        # self.other_property translated earlier in this file (total)
        if isinstance(e, ast.Attribute) and isinstance(e.value, ast.Name) and env.get(e.value.id) == "url" \
                and e.attr in self.methods and self.methods[e.attr] in ("strs", "str", "bool"):
            return f"(gen_{cn(e.attr)} {e.value.id})", self.methods[e.attr]
        # x.raw_parts (total in the model)
        if isinstance(e, ast.Attribute) and isinstance(e.value, ast.Name) and env.get(e.value.id) == "url" and e.attr == "raw_parts":
            return f"(raw_parts {e.value.id})", "strs"
        # [*xs, "lit"]
        if isinstance(e, ast.List) and len(e.elts) == 2 and isinstance(e.elts[0], ast.Starred) and isinstance(e.elts[1], ast.Constant):
            a, ta = self.expr(e.elts[0].value, env)
            if ta == "strs":
                return f"({a} ++ [{lit(e.elts[1].value)}])", "strs"
        if isinstance(e, ast.Call) and isinstance(e.func, ast.Attribute) and e.func.attr == "split" and len(e.args) == 1 and not e.keywords:
            a, ta = self.expr(e.func.value, env)
            if ta == "str":
                return f"(split {one_char(e.args[0])} {a})", "strs"
        if isinstance(e, ast.Call) and isinstance(e.func, ast.Attribute) and e.func.attr == "join" and len(e.args) == 1 and not e.keywords:
            a, ta = self.expr(e.args[0], env)
            if ta == "strs":
                return f"(join [{one_char(e.func.value)}] {a})", "str"
        if isinstance(e, ast.Subscript) and ast.unparse(e.slice) == ":-1":
            a, ta = self.expr(e.value, env)
            if ta == "strs":
                return f"(removelast {a})", "strs"
        return super().expr(e, env)

    def unguarded(self, node, env):
        """str names indexed as x[0] outside an [x and ...] guard"""
        guarded, found = set(), []
        for n in ast.walk(node):
            if isinstance(n, ast.BoolOp) and isinstance(n.op, ast.And):
                for v in n.values[:-1]:
                    if isinstance(v, ast.Name):
                        guarded.add(v.id)
            if isinstance(n, ast.IfExp) and isinstance(n.test, ast.Name):
                guarded.add(n.test.id)
        for n in ast.walk(node):
            if isinstance(n, ast.Subscript) and isinstance(n.value, ast.Name) and env.get(n.value.id) in ("str", "strs") \
                    and ast.unparse(n.slice) in ("0", "-1") and n.value.id not in guarded and n.value.id not in found:
                found.append(n.value.id)
        return found

    def cond_bool(self, test, env):
        if isinstance(test, ast.Name) and env.get(test.id) == "strset":        # truthiness of a set
            return f"(match {test.id} with [] => false | _ :: _ => true end)"
        # x and x[-1].isdigit()
        if isinstance(test, ast.BoolOp) and isinstance(test.op, ast.And) and len(test.values) == 2 and isinstance(test.values[0], ast.Name) \
                and env.get(test.values[0].id) == "str" and ast.unparse(test.values[1]) == test.values[0].id + "[-1].isdigit()":
            return f"(match last_opt {test.values[0].id} with Some l0 => py_isdigit l0 | None => false end)"
        # x[0] == "c": the caller has checked that x is not empty (stmts wraps the statement in that check)
        if isinstance(test, ast.Compare) and len(test.ops) == 1 and isinstance(test.ops[0], (ast.Eq, ast.NotEq)) \
                and isinstance(test.left, ast.Subscript) and isinstance(test.left.value, ast.Name) and env.get(test.left.value.id) == "str" \
                and ast.unparse(test.left.slice) in ("0", "-1") and test.left.value.id in getattr(self, "nonempty_checked", ()):
            ch = one_char(test.comparators[0])
            t = f"N.eqb c0 {ch}" if isinstance(test.ops[0], ast.Eq) else f"negb (N.eqb c0 {ch})"
            if ast.unparse(test.left.slice) == "-1":
                return f"(match last_opt {test.left.value.id} with Some c0 => {t} | None => false end)"
            return f"(match {test.left.value.id} with c0 :: _ => {t} | [] => false end)"
        # 0 < i < len(s) - 1   for an index i >= 0 (N subtraction saturates at 0, where the test is false either way)
        if isinstance(test, ast.Compare) and len(test.ops) == 2 and all(isinstance(o, ast.Lt) for o in test.ops) \
                and isinstance(test.left, ast.Constant) and test.left.value == 0 and isinstance(test.comparators[0], ast.Name) \
                and env.get(test.comparators[0].id) == "idx" and ast.unparse(test.comparators[1]).startswith("len(") \
                and ast.unparse(test.comparators[1]).endswith(") - 1") and isinstance(test.comparators[1], ast.BinOp) \
                and isinstance(test.comparators[1].left, ast.Call) and len(test.comparators[1].left.args) == 1:
            a, ta = self.expr(test.comparators[1].left.args[0], env)
            if ta == "str":
                i = test.comparators[0].id
                return f"((0 <? {i}) && ({i} <? len {a} - 1))"
        if isinstance(test, ast.Compare) and len(test.ops) == 1 and isinstance(test.ops[0], ast.In) and isinstance(test.left, ast.Name) \
                and env.get(test.left.id) == "str" and isinstance(test.comparators[0], ast.Tuple) \
                and all(isinstance(x, ast.Constant) and isinstance(x.value, str) for x in test.comparators[0].elts):
            return "(" + " || ".join(f"str_eqb {test.left.id} {lit(x.value)}" for x in test.comparators[0].elts) + ")"
        if isinstance(test, ast.Compare) and len(test.ops) == 1 and isinstance(test.ops[0], ast.Eq) and isinstance(test.left, ast.Call) \
                and ast.unparse(test.left.func) == "len" and len(test.left.args) == 1 and isinstance(test.left.args[0], ast.Name) \
                and env.get(test.left.args[0].id) == "strs" and isinstance(test.comparators[0], ast.Constant) \
                and isinstance(test.comparators[0].value, int):
            return f"(Nat.eqb (length {test.left.args[0].id}) {test.comparators[0].value})"
        if isinstance(test, ast.Compare) and len(test.ops) == 1 and isinstance(test.ops[0], (ast.Eq, ast.NotEq)) \
                and isinstance(test.left, ast.Subscript) and isinstance(test.left.value, ast.Name) and env.get(test.left.value.id) == "strs" \
                and ast.unparse(test.left.slice) == "0" and isinstance(test.comparators[0], ast.Constant) \
                and test.left.value.id in getattr(self, "nonempty_checked", ()):
            t = f"(match {test.left.value.id} with x0 :: _ => str_eqb x0 {lit(test.comparators[0].value)} | [] => false end)"
            return t if isinstance(test.ops[0], ast.Eq) else f"(negb {t})"
        if isinstance(test, ast.Call) and isinstance(test.func, ast.Attribute) and test.func.attr == "endswith" and len(test.args) == 1 \
                and isinstance(test.func.value, ast.Name) and env.get(test.func.value.id) == "str" and isinstance(test.args[0], ast.Constant):
            return f"(endswith {lit(test.args[0].value)} {test.func.value.id})"
        if isinstance(test, ast.Name) and env.get(test.id) == "strs":
            return f"(match {test.id} with [] => false | _ :: _ => true end)"
        if isinstance(test, ast.Compare) and len(test.ops) == 1 and isinstance(test.ops[0], ast.Eq) and isinstance(test.left, ast.Name) \
                and env.get(test.left.id) == "nat" and isinstance(test.comparators[0], ast.Constant) and isinstance(test.comparators[0].value, int):
            return f"(Nat.eqb {test.left.id} {test.comparators[0].value})"
        if isinstance(test, ast.Compare) and len(test.ops) == 1 and isinstance(test.ops[0], (ast.Eq, ast.NotEq)) \
                and isinstance(test.left, ast.Subscript) and isinstance(test.left.value, ast.Name) and env.get(test.left.value.id) == "strs" \
                and ast.unparse(test.left.slice) == "-1" and isinstance(test.comparators[0], ast.Constant):
            # xs[-1] == "lit": either guarded by [xs and ...] (false on the empty list) or checked by the enclosing statement
            t = f"(match last_opt {test.left.value.id} with Some x0 => str_eqb x0 {lit(test.comparators[0].value)} | None => false end)"
            neg = isinstance(test.ops[0], ast.NotEq)
            return f"(match last_opt {test.left.value.id} with Some x0 => negb (str_eqb x0 {lit(test.comparators[0].value)}) | None => false end)" if neg else t
        if isinstance(test, ast.Call) and isinstance(test.func, ast.Name) and test.func.id == "isinstance" and len(test.args) == 2 \
                and isinstance(test.args[0], ast.Name) and isinstance(test.args[1], ast.Name) and test.args[1].id == "str":
            t = env.get(test.args[0].id)
            if t == "str":
                return "true"
            if t == "none":
                return "false"
            raise Untranslatable("isinstance of a value of type " + str(t))
        if isinstance(test, ast.Call) and isinstance(test.func, ast.Name) and test.func.id == "isinstance" and len(test.args) == 2 \
                and isinstance(test.args[0], ast.Name) and isinstance(test.args[1], ast.Name) and test.args[1].id in ("bool", "int") \
                and env.get(test.args[0].id) in ("pbool", "zint"):
            t = env[test.args[0].id]
            return "true" if (test.args[1].id == "int" or t == "pbool") else "false"     # bool is a subclass of int
        # 0 <= n <= 65535 on an int argument
        if isinstance(test, ast.Compare) and len(test.ops) == 2 and all(isinstance(o, ast.LtE) for o in test.ops) \
                and isinstance(test.left, ast.Constant) and isinstance(test.comparators[0], ast.Name) \
                and env.get(test.comparators[0].id) == "zint" and isinstance(test.comparators[1], ast.Constant) \
                and isinstance(test.left.value, int) and isinstance(test.comparators[1].value, int):
            x = test.comparators[0].id
            return f"(Z.leb {test.left.value} {x} && Z.leb {x} {test.comparators[1].value})%bool"
        # x and not x[0] == "c"
        if isinstance(test, ast.BoolOp) and isinstance(test.op, ast.And) and len(test.values) == 2 and isinstance(test.values[0], ast.Name) \
                and env.get(test.values[0].id) == "str" and isinstance(test.values[1], ast.UnaryOp) and isinstance(test.values[1].op, ast.Not) \
                and isinstance(test.values[1].operand, ast.Compare) and len(test.values[1].operand.ops) == 1 \
                and isinstance(test.values[1].operand.ops[0], ast.Eq) and isinstance(test.values[1].operand.left, ast.Subscript) \
                and ast.unparse(test.values[1].operand.left.value) == test.values[0].id and ast.unparse(test.values[1].operand.left.slice) == "0":
            ch = one_char(test.values[1].operand.comparators[0])
            return f"(match {test.values[0].id} with c0 :: _ => negb (N.eqb c0 {ch}) | [] => false end)"
        # x and x[0] != "c"
        if isinstance(test, ast.BoolOp) and isinstance(test.op, ast.And) and len(test.values) == 2 and isinstance(test.values[0], ast.Name) \
                and env.get(test.values[0].id) == "str" and isinstance(test.values[1], ast.Compare) and len(test.values[1].ops) == 1 \
                and isinstance(test.values[1].left, ast.Subscript) and ast.unparse(test.values[1].left.value) == test.values[0].id \
                and ast.unparse(test.values[1].left.slice) == "0" and isinstance(test.values[1].ops[0], (ast.Eq, ast.NotEq)):
            ch = one_char(test.values[1].comparators[0])
            t = f"N.eqb c0 {ch}" if isinstance(test.values[1].ops[0], ast.Eq) else f"negb (N.eqb c0 {ch})"
            return f"(match {test.values[0].id} with c0 :: _ => {t} | [] => false end)"
        return super().cond_bool(test, env)

    def COQ2(self, t):
        return {"url": "url", "optidx": "option N", "idx": "N"}.get(t) or super().COQ2(t)

    def coerce(self, text, have, want):
        if have == "zint" and want == "optint":
            return f"(Some (Z.to_N {text}))"
        return super().coerce(text, have, want)

    def branch(self, test, env, then_k, else_k):
        # 0 < i < ... with i = s.rfind(c): -1 (None) fails the test
        if isinstance(test, ast.Compare) and len(test.ops) == 2 and isinstance(test.comparators[0], ast.Name) \
                and env.get(test.comparators[0].id) == "optidx" and isinstance(test.left, ast.Constant) and test.left.value == 0 \
                and isinstance(test.ops[0], ast.Lt):
            i = test.comparators[0].id
            e1 = dict(env)
            e1[i] = "idx"
            return f"(match {i} with None => {else_k(env)} | Some {i} => {self.branch(test, e1, then_k, else_k)} end)"
        # "not x" on a str records that x is non-empty on the other branch
        if isinstance(test, ast.UnaryOp) and isinstance(test.op, ast.Not) and isinstance(test.operand, ast.Name) \
                and env.get(test.operand.id) == "str":
            x = test.operand.id
            e1 = dict(env)
            e1["%nonempty:" + x] = True
            return f"(if (negb (nonempty {x})) then {then_k(env)} else {else_k(e1)})"
        # port is not None / port is None   for the argument of with_port (None | bool | int)
        if isinstance(test, ast.Compare) and len(test.ops) == 1 and isinstance(test.left, ast.Name) \
                and env.get(test.left.id) == "portarg" and isinstance(test.ops[0], (ast.Is, ast.IsNot)) \
                and isinstance(test.comparators[0], ast.Constant) and test.comparators[0].value is None:
            x = test.left.id
            en, eb, ei = dict(env), dict(env), dict(env)
            en[x], eb[x], ei[x] = "none", "pbool", "zint"
            none_k, some_k = (then_k, else_k) if isinstance(test.ops[0], ast.Is) else (else_k, then_k)
            return f"(match {x} with PNone => {none_k(en)} | PBool {x} => {some_k(eb)} | PInt {x} => {some_k(ei)} end)"
        return super().branch(test, env, then_k, else_k)

    def stmts(self, body, env, rec):
        # x = set(names) & self.query.keys()        (names: a tuple of str; the keys of the parsed query string)
        if body and isinstance(body[0], ast.Assign) and len(body[0].targets) == 1 and isinstance(body[0].targets[0], ast.Name) \
                and isinstance(body[0].value, ast.BinOp) and isinstance(body[0].value.op, ast.BitAnd) \
                and isinstance(body[0].value.left, ast.Call) and ast.unparse(body[0].value.left.func) == "set" \
                and len(body[0].value.left.args) == 1 and isinstance(body[0].value.left.args[0], ast.Name) \
                and env.get(body[0].value.left.args[0].id) == "strs" and not body[0].value.left.keywords \
                and isinstance(body[0].value.right, ast.Call) and isinstance(body[0].value.right.func, ast.Attribute) \
                and body[0].value.right.func.attr == "keys" and not body[0].value.right.args and not body[0].value.right.keywords \
                and isinstance(body[0].value.right.func.value, ast.Attribute) and body[0].value.right.func.value.attr == "query" \
                and isinstance(body[0].value.right.func.value.value, ast.Name) and env.get(body[0].value.right.func.value.value.id) == "url":
            x, names, obj = body[0].targets[0].id, body[0].value.left.args[0].id, body[0].value.right.func.value.value.id
            e1 = dict(env)
            e1[x] = "strset"
            return (f"(let {x} : list str := List.filter (fun k0 : str => str_in k0 {names}) (map fst (query_pairs {obj})) in "
                    f"{self.stmts(body[1:], e1, rec)})")
        # return self.with_query(tuple((name, value) for name, value in self.query.items() if name not in x))
        if body and isinstance(body[0], ast.Return) and isinstance(body[0].value, ast.Call) and isinstance(body[0].value.func, ast.Attribute) \
                and body[0].value.func.attr == "with_query" and isinstance(body[0].value.func.value, ast.Name) \
                and env.get(body[0].value.func.value.id) == "url" and self.methods.get("with_query") == self.rett \
                and len(body[0].value.args) == 1 and not body[0].value.keywords and isinstance(body[0].value.args[0], ast.Call) \
                and ast.unparse(body[0].value.args[0].func) == "tuple" and len(body[0].value.args[0].args) == 1 \
                and isinstance(body[0].value.args[0].args[0], ast.GeneratorExp):
            g = body[0].value.args[0].args[0]
            obj = body[0].value.func.value.id
            ok = len(g.generators) == 1 and ast.unparse(g.elt) == "(name, value)" and ast.unparse(g.generators[0].target) == "(name, value)" \
                and ast.unparse(g.generators[0].iter) == obj + ".query.items()" and len(g.generators[0].ifs) == 1 and not g.generators[0].is_async
            c = g.generators[0].ifs[0] if ok else None
            if not (ok and isinstance(c, ast.Compare) and len(c.ops) == 1 and isinstance(c.ops[0], ast.NotIn) and ast.unparse(c.left) == "name"
                    and isinstance(c.comparators[0], ast.Name) and env.get(c.comparators[0].id) == "strset"):
                raise Untranslatable("statement " + ast.unparse(body[0])[:80])
            return (f"(gen_with_query {obj} (QASeq (map qv_of_str (List.filter (fun kv : str * str => negb (str_in (fst kv) {c.comparators[0].id})) "
                    f"(query_pairs {obj})))))")
        # if TYPE_CHECKING: assert ...
        if body and isinstance(body[0], ast.If) and ast.unparse(body[0].test) == "TYPE_CHECKING" and not body[0].orelse \
                and all(isinstance(x, ast.Assert) for x in body[0].body):
            return self.stmts(body[1:], env, rec)
        # x = human_quote(<Optional[str]>, "lit")      (None stays None)
        if body and isinstance(body[0], ast.Assign) and len(body[0].targets) == 1 and isinstance(body[0].targets[0], ast.Name) \
                and isinstance(body[0].value, ast.Call) and isinstance(body[0].value.func, ast.Name) and body[0].value.func.id == "human_quote" \
                and len(body[0].value.args) == 2 and not body[0].value.keywords and self.fallible:
            binds = []
            arg0 = self.hoist(body[0].value.args[0], env, binds)

            def fin(e1, st=body[0], rest=body[1:]):
                a, ta = self.expr(arg0, e1)
                u, tu = self.expr(st.value.args[1], e1)
                if tu != "str" or ta not in ("str", "optstr"):
                    raise Untranslatable("human_quote of " + str(ta))
                head, rt = ("hq_opt", "optstr") if ta == "optstr" else ("human_quote", "str")
                e2 = dict(e1)
                e2[st.targets[0].id] = rt
                return f"(match {head} {a} {u} with Err e => Err e | Ok {st.targets[0].id} => {self.stmts(rest, e2, rec)} end)"
            return self.with_binds(binds, env, fin)
        # q = "&".join("{}={}".format(human_quote(k, Q), human_quote(v, Q)) for k, v in self.query.items())
        if body and isinstance(body[0], ast.Assign) and len(body[0].targets) == 1 and isinstance(body[0].targets[0], ast.Name) \
                and self.fallible and ast.unparse(body[0].value).startswith("'&'.join(('{}={}'.format(human_quote(k, ") \
                and ast.unparse(body[0].value).endswith(") for k, v in self.query.items()))"):
            call = body[0].value.args[0].elt          # '{}={}'.format(human_quote(k, Q), human_quote(v, Q))
            a1, a2 = call.args
            if not (ast.unparse(a1.args[0]) == "k" and ast.unparse(a2.args[0]) == "v" and isinstance(a1.args[1], ast.Constant)
                    and isinstance(a2.args[1], ast.Constant) and a1.args[1].value == a2.args[1].value):
                raise Untranslatable("statement " + ast.unparse(body[0])[:80])
            qset = lit(a1.args[1].value)
            x = body[0].targets[0].id
            e1 = dict(env)
            e1[x] = "str"
            return (f"(match mapM (fun kv : str * str => match human_quote (fst kv) {qset} with Err e => Err e | Ok k => "
                    f"match human_quote (snd kv) {qset} with Err e => Err e | Ok v => Ok (k ++ [61] ++ v) end end) (query_pairs self) with "
                    f"Err e => Err e | Ok qs0 => (let {x} : str := join [38] qs0 in {self.stmts(body[1:], e1, rec)}) end)")
        # return f(x)  for a callee that may raise
        if body and isinstance(body[0], ast.Return) and isinstance(body[0].value, ast.Call) and isinstance(body[0].value.func, ast.Name) \
                and body[0].value.func.id in self.CALLEES and self.CALLEES[body[0].value.func.id][3] and self.fallible:
            call = self.call_text(body[0].value, env)
            v = self.coerce("r0", self.CALLEES[body[0].value.func.id][2], self.rtype)
            return f"(match {call} with Err e => Err e | Ok r0 => Ok {v} end)"
        if body and isinstance(body[0], ast.Return) and isinstance(body[0].value, ast.Call) and isinstance(body[0].value.func, ast.Attribute) \
                and isinstance(body[0].value.func.value, ast.Name) and env.get(body[0].value.func.value.id) == "url" \
                and body[0].value.func.attr in self.methods and self.methods[body[0].value.func.attr] == self.rett:
            call = body[0].value
            args = [self.expr(a, env)[0] for a in call.args]
            if call.keywords or len(args) < len(METHOD_PARAMS.get(call.func.attr, args)):
                params = METHOD_PARAMS.get(call.func.attr)
                kws = {k.arg: k.value for k in call.keywords}
                if params is None or None in kws or len(args) > len(params) or set(kws) - {p for p, _ in params[len(args):]}:
                    raise Untranslatable("call " + ast.unparse(call))
                for p, d in params[len(args):]:
                    if p in kws:
                        a, ta = self.expr(kws[p], env)
                        if ta != "bool":
                            raise Untranslatable("keyword argument " + p)
                        args.append(a)
                    elif d is True or d is False:
                        args.append("true" if d else "false")
                    else:
                        raise Untranslatable("missing argument " + p)
            return f"(gen_{cn(call.func.attr)} {call.func.value.id} " + " ".join(args) + ")"
        if body and isinstance(body[0], (ast.If, ast.Assign, ast.Return, ast.AugAssign)) and not (
                isinstance(body[0], ast.Assign) and isinstance(body[0].targets[0], ast.Subscript)):
            node = body[0].test if isinstance(body[0], ast.If) else body[0].value
            names = [n for n in (self.unguarded(node, env) if node is not None else []) if n not in getattr(self, "nonempty_checked", ())]
            if names:
                if not self.fallible:
                    raise Untranslatable("an index that may fail in a total method")
                # Python raises IndexError if x[0] is reached with x empty: the emitted function fails whenever x is empty
                # here (a superset of those cases), so a proof that it never fails covers the source
                self.nonempty_checked = tuple(getattr(self, "nonempty_checked", ())) + tuple(names)
                try:
                    inner = self.stmts(body, env, rec)
                finally:
                    self.nonempty_checked = self.nonempty_checked[:-len(names)]
                for n in names:
                    inner = f"(match {n} with [] => Err OtherError | _ :: _ => {inner} end)"
                return inner
        # xs.reverse()
        if body and isinstance(body[0], ast.Expr) and isinstance(body[0].value, ast.Call) and isinstance(body[0].value.func, ast.Attribute) \
                and body[0].value.func.attr == "reverse" and isinstance(body[0].value.func.value, ast.Name) \
                and env.get(body[0].value.func.value.id) == "strs" and not body[0].value.args:
            x = body[0].value.func.value.id
            return f"(let {x} : list str := rev {x} in {self.stmts(body[1:], env, rec)})"
        # b |= cond      /      xs += ys
        if body and isinstance(body[0], ast.AugAssign) and isinstance(body[0].target, ast.Name):
            x = body[0].target.id
            if isinstance(body[0].op, ast.BitOr) and env.get(x) == "bool":
                c = self.cond_bool(body[0].value, env)
                return f"(let {x} : bool := {x} || {c} in {self.stmts(body[1:], env, rec)})"
            if isinstance(body[0].op, ast.Add) and env.get(x) == "str":
                if isinstance(body[0].value, ast.IfExp):
                    c = self.cond_bool(body[0].value.test, env)
                    a, ta = self.expr(body[0].value.body, env)
                    b, tb = self.expr(body[0].value.orelse, env)
                    if ta == tb == "str":
                        return f"(let {x} : str := {x} ++ (if {c} then {a} else {b}) in {self.stmts(body[1:], env, rec)})"
                v, tv = self.expr(body[0].value, env)
                if tv == "str":
                    return f"(let {x} : str := {x} ++ {v} in {self.stmts(body[1:], env, rec)})"
            if isinstance(body[0].op, ast.Add) and env.get(x) == "strs":
                if isinstance(body[0].value, ast.IfExp):
                    c = self.cond_bool(body[0].value.test, env)
                    a, ta = self.expr(body[0].value.body, env)
                    b, tb = self.expr(body[0].value.orelse, env)
                    if ta == tb == "strs":
                        return f"(let {x} : list str := {x} ++ (if {c} then {a} else {b}) in {self.stmts(body[1:], env, rec)})"
                v, tv = self.expr(body[0].value, env)
                if tv == "strs":
                    return f"(let {x} : list str := {x} ++ {v} in {self.stmts(body[1:], env, rec)})"
            raise Untranslatable("statement " + ast.unparse(body[0])[:80])
        # xs: list[str] = []      /      b: bool = False
        if body and isinstance(body[0], ast.AnnAssign) and isinstance(body[0].target, ast.Name) and body[0].value is not None:
            t = ast.unparse(body[0].annotation)
            x = body[0].target.id
            e1 = dict(env)
            if t == "list[str]" and isinstance(body[0].value, ast.List) and not body[0].value.elts:
                e1[x] = "strs"
                return f"(let {x} : list str := [] in {self.stmts(body[1:], e1, rec)})"
            if t == "bool" and isinstance(body[0].value, ast.Constant) and isinstance(body[0].value.value, bool):
                e1[x] = "bool"
                return f"(let {x} : bool := {'true' if body[0].value.value else 'false'} in {self.stmts(body[1:], e1, rec)})"
        # for idx, x in enumerate(reversed(xs)): body      (state: the local variables the body re-assigns)
        if body and isinstance(body[0], ast.For) and not body[0].orelse and isinstance(body[0].target, ast.Tuple) \
                and len(body[0].target.elts) == 2 and all(isinstance(t, ast.Name) for t in body[0].target.elts) \
                and ast.unparse(body[0].iter).startswith("enumerate(reversed(") and isinstance(body[0].iter, ast.Call) \
                and len(body[0].iter.args) == 1 and isinstance(body[0].iter.args[0], ast.Call) and len(body[0].iter.args[0].args) == 1:
            if not self.fallible:
                raise Untranslatable("a loop in a total method")
            xs, txs = self.expr(body[0].iter.args[0].args[0], env)
            if txs != "strs":
                raise Untranslatable("loop over " + txs)
            idx, x = body[0].target.elts[0].id, body[0].target.elts[1].id
            state = []
            for n in ast.walk(body[0]):
                tg = None
                if isinstance(n, ast.AugAssign) and isinstance(n.target, ast.Name):
                    tg = n.target.id
                elif isinstance(n, ast.Assign) and len(n.targets) == 1 and isinstance(n.targets[0], ast.Name):
                    tg = n.targets[0].id
                if tg and tg in env and tg not in (idx, x) and tg not in state:
                    state.append(tg)
            if not state or any(env[v] not in ("strs", "bool") for v in state):
                raise Untranslatable("loop state " + repr(state))
            tup = "(" + ", ".join(state) + ")"
            e1 = dict(env)
            e1[idx], e1[x] = "nat", "str"
            self.loop_end = f"(Ok {tup})"
            try:
                inner = self.stmts(list(body[0].body) + [ast.Pass()], e1, rec)
            finally:
                self.loop_end = None
            ty = " * ".join({"strs": "list str", "bool": "bool"}[env[v]] for v in state)
            return (f"(match loop_idx (fun ({idx} : nat) ({x} : str) (st : {ty}) => let '{tup} := st in {inner}) 0 (rev {xs}) {tup} with "
                    f"Err e => Err e | Ok {tup} => {self.stmts(body[1:], env, rec)} end)")
        # list mutation on a local list of str: xs.append(e) / xs[-1] = e / xs[0] = e
        if body and isinstance(body[0], ast.Expr) and isinstance(body[0].value, ast.Call) and isinstance(body[0].value.func, ast.Attribute) \
                and body[0].value.func.attr == "append" and isinstance(body[0].value.func.value, ast.Name) \
                and env.get(body[0].value.func.value.id) == "strs" and len(body[0].value.args) == 1:
            x = body[0].value.func.value.id
            v, tv = self.expr(body[0].value.args[0], env)
            if tv != "str":
                raise Untranslatable("append of " + tv)
            return f"(let {x} : list str := {x} ++ [{v}] in {self.stmts(body[1:], env, rec)})"
        if body and isinstance(body[0], ast.Assign) and len(body[0].targets) == 1 and isinstance(body[0].targets[0], ast.Subscript) \
                and isinstance(body[0].targets[0].value, ast.Name) and env.get(body[0].targets[0].value.id) == "strs" \
                and ast.unparse(body[0].targets[0].slice) in ("0", "-1"):
            if not self.fallible:
                raise Untranslatable("an index that may fail in a total method")
            x = body[0].targets[0].value.id
            v, tv = self.expr(body[0].value, env)
            if tv != "str":
                raise Untranslatable("store of " + tv)
            upd = f"(removelast {x} ++ [{v}])" if ast.unparse(body[0].targets[0].slice) == "-1" else f"({v} :: tl {x})"
            return f"(match {x} with [] => Err OtherError | _ :: _ => (let {x} : list str := {upd} in {self.stmts(body[1:], env, rec)}) end)"
        if body and isinstance(body[0], ast.If) and ast.unparse(body[0].test) == "type(url_) is not URL" and len(body[0].body) == 1 \
                and isinstance(body[0].body[0], ast.Raise) and not body[0].orelse:
            return self.stmts(body[1:], env, rec)      # type dispatch on the argument (a URL by assumption)
        if body and isinstance(body[0], ast.Pass) and len(body) == 1 and getattr(self, "loop_end", None):
            return self.loop_end
        if body and isinstance(body[0], ast.Pass):
            return self.stmts(body[1:] , env, rec)
        if body and isinstance(body[0], ast.Raise):
            return ProcFn.stmts(self, body, env, rec)
        if body and isinstance(body[0], ast.Assign) and len(body[0].targets) == 1 and isinstance(body[0].targets[0], ast.Name):
            st, rest = body[0], body[1:]
            v = st.value
            if isinstance(v, ast.IfExp):
                mk = lambda val: (lambda e1: self.stmts([ast.Assign(targets=st.targets, value=val)] + rest, e1, rec))
                binds = []
                test = self.hoist(v.test, env, binds)
                return self.with_binds(binds, env, lambda e1: self.branch(test, e1, mk(v.body), mk(v.orelse)))
            if isinstance(v, ast.Call) and isinstance(v.func, ast.Name) and v.func.id in self.CALLEES and self.CALLEES[v.func.id][3]:
                if not self.fallible:
                    raise Untranslatable("a call that may raise in a total method")
                call = self.call_text(v, env)
                e1 = dict(env)
                e1[st.targets[0].id] = self.CALLEES[v.func.id][2]
                return f"(match {call} with Err e => Err e | Ok {st.targets[0].id} => {self.stmts(rest, e1, rec)} end)"
        return super().stmts(body, env, rec)

    def translate(self, fd):
        # (self, *args: Any, **kwargs: Any), used only as get_str_query(*args, **kwargs): one model argument q : qarg
        qsig = fd.args.vararg is not None and fd.args.kwarg is not None and len(fd.args.args) == 1 and not fd.args.kwonlyargs \
            and (fd.args.vararg.arg, fd.args.kwarg.arg) == ("args", "kwargs") \
            and ast.unparse(fd.args.vararg.annotation) == "Any" and ast.unparse(fd.args.kwarg.annotation) == "Any"
        if (fd.args.kwarg and not qsig) or fd.args.posonlyargs:
            raise Untranslatable("signature of " + fd.name)
        if fd.args.vararg and not qsig and not (ast.unparse(fd.args.vararg.annotation) == "str" and len(fd.args.args) == 1):
            raise Untranslatable("signature of " + fd.name)      # only (self, *xs: str, kw: bool = ...): xs is a tuple of str
        for d in fd.args.defaults:
            if not (isinstance(d, ast.Constant) and d.value in (True, False)):
                raise Untranslatable("default value " + ast.unparse(d))
        for d in fd.decorator_list:
            if ast.unparse(d) != "cached_property":
                raise Untranslatable("decorator " + ast.unparse(d))
        for a, d in zip(fd.args.kwonlyargs, fd.args.kw_defaults):
            if ast.unparse(a.annotation) != "bool" or not (isinstance(d, ast.Constant) and d.value in (True, False)):
                raise Untranslatable("keyword-only parameter " + a.arg)
        nd = len(fd.args.args) - len(fd.args.defaults)
        METHOD_PARAMS[fd.name] = [(a.arg, None if i < nd else fd.args.defaults[i - nd].value) for i, a in enumerate(fd.args.args)][1:] + \
            ([(fd.args.vararg.arg, None)] if fd.args.vararg else []) + [(a.arg, d.value) for a, d in zip(fd.args.kwonlyargs, fd.args.kw_defaults)]
        import copy
        fd = copy.deepcopy(fd)
        for n in ast.walk(fd):             # a parameter called url would shadow the Coq type of that name
            if isinstance(n, ast.Name) and n.id == "url":
                n.id = "url_"
            elif isinstance(n, ast.arg) and n.arg == "url":
                n.arg = "url_"
        args = fd.args.args
        if not args or args[0].arg != "self":
            raise Untranslatable("parameters of " + fd.name)
        env = {"self": "url"}
        ps = ["(self : url)"]
        if qsig:
            env["args"] = env["kwargs"] = "qargs"
            ps.append("(q : qarg)")
        for a in list(args[1:]) + ([fd.args.vararg] if fd.args.vararg and not qsig else []) + list(fd.args.kwonlyargs):
            if a is fd.args.vararg:
                t, ct = "strs", "list str"
            elif self.portarg and a.arg == "port":
                t, ct = "portarg", "portarg"
            elif ast.unparse(a.annotation).strip("'\"") == "URL":
                t, ct = "url", "url"
            elif ast.unparse(a.annotation).strip("'\"") == "Sequence[str]":
                t, ct = "strs", "list str"
            else:
                t = TreeFn({}).ann(a.annotation)
                ct = self.COQ[t]
            env[a.arg] = t
            ps.append(f"({a.arg} : {ct})")
        body = self.stmts(list(fd.body), env, {})
        base = {"url": "url", "strs": "list str", "str": "str", "bool": "bool", "optstr": "option str", "optint": "option N"}[self.rtype]
        rt = f"result ({base})" if self.fallible else base
        return f"Definition gen_{cn(fd.name)} {' '.join(ps)} : {rt} :=\n  {body}.", ([], self.rett)


class BuildFn(ModFn):
    """URL.build of yarl/_url.py: a classmethod with keyword-only parameters, read as a function of the
    model's record of arguments (Model/Url.v: build_args; the harness passes every argument, the defaults
    must be the pinned ones).  Two semantics-preserving rewrites first: [x = f(y) if c else e] is
    [if c: x = f(y) else: x = e] (so that a callee that may raise is a statement) and [self._x = y = e] is
    [y = e; self._x = y].  The int argument [port] is a Z once the type test has passed (PInt) and is read as
    the natural number Z.to_N where it is printed or compared, which is exact after the range check."""

    PARAMS = [("scheme", "str", "''"), ("authority", "str", "''"), ("user", "optstr", "None"), ("password", "optstr", "None"),
              ("host", "str", "''"), ("port", "portarg", "None"), ("path", "str", "''"), ("query", "qarg", "None"),
              ("query_string", "str", "''"), ("fragment", "str", "''"), ("encoded", "bool", "False")]
    ANN = {"str": "str", "optstr": "Union[str, None]", "portarg": "Union[int, None]", "qarg": "Union[Query, None]", "bool": "bool"}

    def __init__(self):
        super().__init__("rurl", {})
        self.portarg = True

    def expr(self, e, env):
        # a field of the record under construction that has been stored already
        if isinstance(e, ast.Attribute) and isinstance(e.value, ast.Name) and env.get(e.value.id) == "self" and e.attr in getattr(self, "cur_rec", {}) \
                and e.attr != "_cache":
            return self.cur_rec[e.attr], "str"
        if isinstance(e, ast.JoinedStr):
            parts = []
            for v in e.values:
                if isinstance(v, ast.Constant):
                    parts.append(lit(v.value))
                elif isinstance(v, ast.FormattedValue) and v.conversion == -1 and v.format_spec is None:
                    t, tt = self.expr(v.value, env)
                    if tt == "str":
                        parts.append(t)
                    elif tt == "int":
                        parts.append(f"str_of_N {t}")
                    elif tt == "zint":            # an int argument that has passed the range check 0..65535
                        parts.append(f"str_of_N (Z.to_N {t})")
                    else:
                        raise Untranslatable("f-string field of type " + tt + ": " + ast.unparse(e))
                else:
                    raise Untranslatable("f-string " + ast.unparse(e))
            return "(" + " ++ ".join(parts or ["[]"]) + ")", "str"
        return super().expr(e, env)

    def cond_bool(self, test, env):
        if isinstance(test, ast.Attribute) and isinstance(test.value, ast.Name) and env.get(test.value.id) == "self":
            a, ta = self.expr(test, env)
            return f"(nonempty {a})"
        if isinstance(test, ast.Compare) and len(test.ops) == 1 and isinstance(test.ops[0], (ast.Is, ast.IsNot)) and isinstance(test.left, ast.Name) \
                and env.get(test.left.id) in ("zint", "pbool") and isinstance(test.comparators[0], ast.Constant) and test.comparators[0].value is None:
            return "false" if isinstance(test.ops[0], ast.Is) else "true"
        # n == DEFAULT_PORTS.get(scheme)   with n an int argument already range-checked
        if isinstance(test, ast.Compare) and len(test.ops) == 1 and isinstance(test.ops[0], ast.Eq) and isinstance(test.left, ast.Name) \
                and env.get(test.left.id) == "zint" and isinstance(test.comparators[0], ast.Call) \
                and ast.unparse(test.comparators[0].func) == "DEFAULT_PORTS.get" and len(test.comparators[0].args) == 1:
            b, tb = self.expr(test.comparators[0].args[0], env)
            if tb == "str":
                return f"(opt_N_eqb (Some (Z.to_N {test.left.id})) (default_port {b}))"
        # x[:1] != "c"
        if isinstance(test, ast.Compare) and len(test.ops) == 1 and isinstance(test.ops[0], (ast.Eq, ast.NotEq)) and isinstance(test.left, ast.Subscript) \
                and ast.unparse(test.left.slice) == ":1" and isinstance(test.left.value, ast.Name) and env.get(test.left.value.id) == "str" \
                and isinstance(test.comparators[0], ast.Constant) and isinstance(test.comparators[0].value, str):
            c = f"(str_eqb (firstn 1 {test.left.value.id}) {lit(test.comparators[0].value)})"
            return c if isinstance(test.ops[0], ast.Eq) else f"(negb {c})"
        if isinstance(test, ast.Name):
            t = env.get(test.id)
            if t == "optstr":                 # inside and/or only: a bare [if x:] narrows instead (branch)
                return f"(opt_truthy {test.id})"
            if t == "zint":
                return f"(negb (Z.eqb {test.id} 0%Z))"
            if t == "portarg":
                return f"(port_truthy {test.id})"
            if t == "qarg":
                return f"(qarg_truthy {test.id})"
            if t == "pbool":
                return test.id
        return super().cond_bool(test, env)

    CALLEES = dict(ModFn.CALLEES)
    CALLEES["get_str_query"] = ("get_query B", [("query", "qarg", None)], "optstr", True)

    # ---- a block that only computes one variable (or one field): one let / bind, no copy of the continuation
    def is_msg(self, st):
        return isinstance(st, ast.Assign) and len(st.targets) == 1 and isinstance(st.targets[0], ast.Name) and st.targets[0].id == "msg" \
            and isinstance(st.value, ast.Constant) and isinstance(st.value.value, str)

    def tree_target(self, stmts):
        for st in stmts:
            if self.is_msg(st) or isinstance(st, ast.Raise):
                continue
            if isinstance(st, ast.If):
                for blk in (st.body, st.orelse):
                    try:
                        return self.tree_target(blk)
                    except Untranslatable:
                        pass
                continue
            if isinstance(st, ast.Assign) and len(st.targets) == 1:
                t = st.targets[0]
                if isinstance(t, ast.Name):
                    return ("name", t.id)
                if isinstance(t, ast.Attribute) and isinstance(t.value, ast.Name) and t.attr in self.FIELDS and t.attr != "_cache":
                    return ("field", t.attr)
            raise Untranslatable("not an assignment block")
        raise Untranslatable("not an assignment block")

    def tree(self, stmts, env, target, want, types, fallible):
        """text of the value the block gives the target; types collects the leaf types (first pass: want None)"""
        def leaf(text, t):
            types.append(t)
            if want is not None:
                text = self.coerce(text, t, want)
            return f"(Ok {text})" if (want is not None and fallible) else text
        stmts = [st for st in stmts if not self.is_msg(st)]
        if not stmts:                                   # the end of the block: the target as it is now
            if target[0] == "field":
                if "%field" not in env:
                    raise Untranslatable("a path that does not store the field")
                return leaf("field_value", env["%field"])
            if target[1] not in env:
                raise Untranslatable("a path that does not assign " + target[1])
            t = env[target[1]]
            return leaf("None" if t == "none" else target[1], t)
        st, rest = stmts[0], stmts[1:]
        if isinstance(st, ast.Raise) and isinstance(st.exc, ast.Call) and isinstance(st.exc.func, ast.Name) \
                and st.exc.func.id in ("ValueError", "TypeError") and st.cause is None:
            fallible.append(True)
            return f"(Err {st.exc.func.id})"
        if isinstance(st, ast.If):
            return self.branch(st.test, env, lambda e1: self.tree(list(st.body) + rest, e1, target, want, types, fallible),
                               lambda e1: self.tree(list(st.orelse) + rest, e1, target, want, types, fallible))
        if not (isinstance(st, ast.Assign) and len(st.targets) == 1 and self.tree_target([st]) == target):
            raise Untranslatable("not an assignment block")
        v = st.value
        if isinstance(v, ast.IfExp):                    # x = a if c else b   is   if c: x = a else: x = b
            mk = lambda val: [ast.Assign(targets=st.targets, value=val)]
            return self.tree([ast.If(test=v.test, body=mk(v.body), orelse=mk(v.orelse))] + rest, env, target, want, types, fallible)
        name = target[1] if target[0] == "name" else "field_value"
        key = target[1] if target[0] == "name" else "%field"
        e1 = dict(env)
        call = None
        if isinstance(v, ast.BoolOp) and isinstance(v.op, ast.Or) and len(v.values) == 2 and isinstance(v.values[1], ast.Constant) \
                and v.values[1].value == "" and isinstance(v.values[0], ast.Call) and isinstance(v.values[0].func, ast.Name) \
                and v.values[0].func.id == "get_str_query":
            call, tcall = f"(match {self.call_text(v.values[0], env)} with Err e => Err e | Ok r0 => Ok (opt_or_empty r0) end)", "str"
        elif isinstance(v, ast.Call) and isinstance(v.func, ast.Name) and v.func.id in self.CALLEES and self.CALLEES[v.func.id][3]:
            tcall = self.CALLEES[v.func.id][2]
            if isinstance(tcall, tuple):
                raise Untranslatable("tuple-valued callee in an assignment block")
            call = self.call_text(v, env)
        if call is not None:
            fallible.append(True)
            e1[key] = tcall
            return f"(match {call} with Err e => Err e | Ok {name} => {self.tree(rest, e1, target, want, types, fallible)} end)"
        x, tx = self.expr(v, env)
        e1[key] = tx
        if tx == "none":
            return self.tree(rest, e1, target, want, types, fallible)
        return f"(let {name} : {self.COQ2(tx)} := {x} in {self.tree(rest, e1, target, want, types, fallible)})"

    def assign_tree(self, blk, env, rec, rest):
        target = self.tree_target(blk)
        types, fallible = [], []
        self.tree(blk, env, target, None, types, fallible)           # first pass: the leaf types, whether anything may raise
        if not types:
            raise Untranslatable("a block that always raises")
        t = types[0]
        for u in types[1:]:
            t = self.join(t, u)
        if target[0] == "field" and t != "str":
            raise Untranslatable("field of type " + t)
        text = self.tree(blk, env, target, t, [], fallible)
        e1, r1 = dict(env), dict(rec)
        if target[0] == "name":
            name = target[1]
            e1[name] = t
            if t == "none" and not fallible:
                return self.stmts(rest, e1, rec)
        else:
            if target[1] in rec:
                raise Untranslatable("field " + target[1])
            name = "f" + target[1]
            r1[target[1]] = name
        if fallible:
            return f"(match {text} with Err e => Err e | Ok {name} => {self.stmts(rest, e1, r1)} end)"
        return f"(let {name} : {self.COQ2(t)} := {text} in {self.stmts(rest, e1, r1)})"

    def stmts(self, body, env, rec):
        self.cur_rec = rec
        if body and (isinstance(body[0], ast.If) or (isinstance(body[0], ast.Assign) and isinstance(body[0].value, ast.IfExp))):
            try:
                return self.assign_tree([body[0]], env, rec, body[1:])
            except Untranslatable:
                self.cur_rec = rec
        # x = get_str_query(q) or ""
        if body and isinstance(body[0], ast.Assign) and len(body[0].targets) == 1 and isinstance(body[0].targets[0], ast.Name) \
                and isinstance(body[0].value, ast.BoolOp) and isinstance(body[0].value.op, ast.Or) and len(body[0].value.values) == 2 \
                and isinstance(body[0].value.values[1], ast.Constant) and body[0].value.values[1].value == "" \
                and isinstance(body[0].value.values[0], ast.Call) and isinstance(body[0].value.values[0].func, ast.Name) \
                and body[0].value.values[0].func.id == "get_str_query":
            call = self.call_text(body[0].value.values[0], env)
            x = body[0].targets[0].id
            e1 = dict(env)
            e1[x] = "str"
            return f"(match {call} with Err e => Err e | Ok r0 => (let {x} : str := opt_or_empty r0 in {self.stmts(body[1:], e1, rec)}) end)"
        # x: Union[str, None] = None
        if body and isinstance(body[0], ast.AnnAssign) and isinstance(body[0].target, ast.Name) and isinstance(body[0].value, ast.Constant) \
                and body[0].value.value is None and ast.unparse(body[0].annotation) == "Union[str, None]":
            e1 = dict(env)
            e1[body[0].target.id] = "none"
            return self.stmts(body[1:], e1, rec)
        # the record: self = object.__new__(URL); self._x = e; return self   (ProcFn's reading)
        if body and isinstance(body[0], ast.Assign) and len(body[0].targets) == 1 and (
                ast.unparse(body[0].value) == "object.__new__(URL)"
                or (isinstance(body[0].targets[0], ast.Attribute) and isinstance(body[0].targets[0].value, ast.Name)
                    and env.get(body[0].targets[0].value.id) == "self")):
            return ProcFn.stmts(self, body, env, rec)
        if body and isinstance(body[0], ast.Return) and isinstance(body[0].value, ast.Name) and env.get(body[0].value.id) == "self":
            return ProcFn.stmts(self, body, env, rec)
        if body and isinstance(body[0], ast.Assign) and len(body[0].targets) == 1 and isinstance(body[0].targets[0], ast.Tuple) \
                and isinstance(body[0].value, ast.Call) and isinstance(body[0].value.func, ast.Name) and body[0].value.func.id in self.CALLEES:
            return ProcFn.stmts(self, body, env, rec)
        # return build_pre_encoded_url(scheme, authority, user, password, host, port, path, query_string, fragment)
        if body and isinstance(body[0], ast.Return) and isinstance(body[0].value, ast.Call) and isinstance(body[0].value.func, ast.Name) \
                and body[0].value.func.id == "build_pre_encoded_url" and not body[0].value.keywords and len(body[0].value.args) == 9 \
                and all(isinstance(x, ast.Name) for x in body[0].value.args):
            want = ["str", "str", "optstr", "optstr", "str", "optint", "str", "str", "str"]
            args = []
            for x, w in zip(body[0].value.args, want):
                args.append(self.opt_coerce(x.id, env.get(x.id), w))
            return "(gen_build_pre_encoded_url " + " ".join(args) + ")"
        return super().stmts(body, env, rec)

    def opt_coerce(self, x, have, want):
        if have == want:
            return x
        if have == "none" and want in ("optstr", "optint"):
            return "None"
        if (have, want) == ("str", "optstr") or (have, want) == ("int", "optint"):
            return f"(Some {x})"
        if (have, want) == ("zint", "optint"):
            return f"(Some (Z.to_N {x}))"
        raise Untranslatable(f"argument {x} of type {have} where {want} is expected")

    def COQ2(self, t):
        return {"zint": "Z", "pbool": "bool", "qarg": "qarg", "portarg": "portarg"}.get(t) or super().COQ2(t)

    def branch(self, test, env, then_k, else_k):
        if isinstance(test, ast.Name) and env.get(test.id) == "optstr":
            x = test.id
            e1 = dict(env)
            e1[x] = "str"
            return f"(match {x} with Some ((_ :: _) as {x}) => {then_k(e1)} | _ => {else_k(env)} end)"
        return super().branch(test, env, then_k, else_k)

    def join(self, ta, tb):
        if {ta, tb} == {"none", "zint"} or {ta, tb} == {"optint", "zint"}:
            return "optint"
        return super().join(ta, tb)

    def rewrite(self, body):
        out = []
        for st in body:
            if isinstance(st, ast.If):
                st = ast.If(test=st.test, body=self.rewrite(st.body), orelse=self.rewrite(st.orelse))
            elif isinstance(st, ast.Assign) and len(st.targets) == 1 and isinstance(st.targets[0], ast.Name) and isinstance(st.value, ast.IfExp) \
                    and any(isinstance(n, ast.Call) and isinstance(n.func, ast.Name) and self.CALLEES.get(n.func.id, (0, 0, 0, False))[3]
                            for n in ast.walk(st.value)):
                st = ast.If(test=st.value.test, body=[ast.Assign(targets=st.targets, value=st.value.body)],
                            orelse=[ast.Assign(targets=st.targets, value=st.value.orelse)])
            elif isinstance(st, ast.Assign) and len(st.targets) == 2 and isinstance(st.targets[0], ast.Attribute) and isinstance(st.targets[1], ast.Name):
                # self._x = y = e   is   y = e; self._x = y
                out.append(ast.fix_missing_locations(ast.Assign(targets=[st.targets[1]], value=st.value)))
                st = ast.Assign(targets=[st.targets[0]], value=ast.Name(id=st.targets[1].id, ctx=ast.Load()))
            out.append(ast.fix_missing_locations(st))
        return out

    def translate(self, fd):
        if [ast.unparse(d) for d in fd.decorator_list] != ["classmethod"]:
            raise Untranslatable("decorators of build")
        a = fd.args
        if a.vararg or a.kwarg or a.posonlyargs or a.defaults or [x.arg for x in a.args] != ["cls"]:
            raise Untranslatable("signature of build")
        got = [(x.arg, ast.unparse(x.annotation), ast.unparse(d)) for x, d in zip(a.kwonlyargs, a.kw_defaults)]
        if got != [(n, self.ANN[t], d) for n, t, d in self.PARAMS]:
            raise Untranslatable("keyword parameters of build")
        env = {n: t for n, t, _ in self.PARAMS}
        import copy
        body = self.rewrite(copy.deepcopy(list(fd.body)))
        text = self.stmts(body, env, {})
        lets = " ".join(f"let {n} := b_{n} a in" for n, _, _ in self.PARAMS)
        return f"Definition gen_build (a : build_args) : result gen_url :=\n  {lets}\n  {text}.", ([], "rgen")



class ParseFn(ProcFn):
    """split_netloc of yarl/_parse.py: string surgery with partition / rpartition.
    [a, b, c = x.partition("c")] binds the text before, whether the separator was found (a bool: the
    source only tests it), and the text after (Base.PyStr.partition / rpartition); [_] targets are
    dropped.  [x or None] is or_none.  [x.isascii()], [x.isdigit()] are Python's predicates
    (isdigit is false on the empty string).  [int(x)] is accepted ONLY on a path on which
    [if not (x.isascii() and x.isdigit()): raise ...] has already been passed - there it is the
    value of a non-empty string of ASCII digits, N_of_digits, and cannot raise, so the enclosing
    [try: ... except ValueError: raise ValueError] is transparent; any other use of int() fails closed.
    The result is the 4-tuple (user, password, host, port)."""

    def expr(self, e, env):
        # x or None
        if isinstance(e, ast.BoolOp) and isinstance(e.op, ast.Or) and len(e.values) == 2 \
                and isinstance(e.values[1], ast.Constant) and e.values[1].value is None:
            a, ta = self.expr(e.values[0], env)
            if ta == "str":
                return f"(or_none {a})", "optstr"
            if ta == "optstr":
                return f"(match {a} with Some u0 => or_none u0 | None => None end)", "optstr"
            if ta == "none":
                return "None", "none"
            raise Untranslatable("or None on " + ta)
        return super().expr(e, env)

    def cond_bool(self, test, env):
        if isinstance(test, ast.Call) and isinstance(test.func, ast.Attribute) and isinstance(test.func.value, ast.Name) \
                and env.get(test.func.value.id) == "str" and not test.args and not test.keywords:
            x = test.func.value.id
            if test.func.attr == "isascii":
                return f"(isascii {x})"
            if test.func.attr == "isdigit":
                return f"(nonempty {x} && forallb py_isdigit {x})"
        # 0 <= n <= 65535 on a natural number
        if isinstance(test, ast.Compare) and len(test.ops) == 2 and all(isinstance(o, ast.LtE) for o in test.ops) \
                and isinstance(test.left, ast.Constant) and test.left.value == 0 and isinstance(test.comparators[0], ast.Name) \
                and env.get(test.comparators[0].id) == "int" and isinstance(test.comparators[1], ast.Constant) \
                and isinstance(test.comparators[1].value, int):
            return f"({test.comparators[0].id} <=? {test.comparators[1].value})"
        return super().cond_bool(test, env)

    def stmts(self, body, env, rec):
        if not body:
            raise Untranslatable("a path falls off the end of the function")
        st, rest = body[0], body[1:]
        # x: T = None
        if isinstance(st, ast.AnnAssign) and isinstance(st.target, ast.Name) and isinstance(st.value, ast.Constant) and st.value.value is None:
            e1 = dict(env)
            e1[st.target.id] = "none"
            return self.stmts(rest, e1, rec)
        # a, b, c = x.partition("c") / x.rpartition("c")
        if isinstance(st, ast.Assign) and len(st.targets) == 1 and isinstance(st.targets[0], ast.Tuple) and isinstance(st.value, ast.Call) \
                and isinstance(st.value.func, ast.Attribute) and st.value.func.attr in ("partition", "rpartition") \
                and len(st.value.args) == 1 and not st.value.keywords and len(st.targets[0].elts) == 3 \
                and all(isinstance(x, ast.Name) for x in st.targets[0].elts):
            a, ta = self.expr(st.value.func.value, env)
            if ta != "str":
                raise Untranslatable("partition of " + ta)
            names = [x.id for x in st.targets[0].elts]
            e1 = dict(env)
            pats = []
            for nm, t in zip(names, ("str", "bool", "str")):
                if nm == "_":
                    pats.append("_")
                else:
                    pats.append(nm)
                    e1[nm] = t
            return f"(let '({', '.join(pats)}) := {st.value.func.attr} {one_char(st.value.args[0])} {a} in {self.stmts(rest, e1, rec)})"
        # if not (x.isascii() and x.isdigit()): raise ...      (records that x is a non-empty string of ASCII digits afterwards)
        if isinstance(st, ast.If) and not st.orelse and len(st.body) == 1 and isinstance(st.body[0], ast.Raise) \
                and isinstance(st.test, ast.UnaryOp) and isinstance(st.test.op, ast.Not) and isinstance(st.test.operand, ast.BoolOp) \
                and isinstance(st.test.operand.op, ast.And) and len(st.test.operand.values) == 2:
            u = [ast.unparse(v) for v in st.test.operand.values]
            m = [x for x in env if env[x] == "str" and sorted(u) == sorted([f"{x}.isascii()", f"{x}.isdigit()"])]
            if m:
                c = self.cond_bool(st.test, env)
                e1 = dict(env)
                e1["%digits:" + m[0]] = True
                return f"(if {c} then {self.stmts(list(st.body), env, rec)} else {self.stmts(rest, e1, rec)})"
        # try: n = int(x) except ValueError: raise ValueError(...)       with x known to be ASCII digits
        if isinstance(st, ast.Try) and len(st.body) == 1 and not st.orelse and not st.finalbody and len(st.handlers) == 1 \
                and ast.unparse(st.handlers[0].type) == "ValueError" and len(st.handlers[0].body) == 1 \
                and isinstance(st.handlers[0].body[0], ast.Raise) and isinstance(st.body[0], ast.Assign) \
                and len(st.body[0].targets) == 1 and isinstance(st.body[0].targets[0], ast.Name) \
                and isinstance(st.body[0].value, ast.Call) and ast.unparse(st.body[0].value.func) == "int" \
                and len(st.body[0].value.args) == 1 and isinstance(st.body[0].value.args[0], ast.Name) and not st.body[0].value.keywords:
            x = st.body[0].value.args[0].id
            if not env.get("%digits:" + x):
                raise Untranslatable("int() of a string that is not known to consist of ASCII digits")
            n = st.body[0].targets[0].id
            e1 = dict(env)
            e1[n] = "int"
            return f"(let {n} : N := N_of_digits {x} in {self.stmts(rest, e1, rec)})"
        if isinstance(st, ast.Return) and isinstance(st.value, ast.Tuple) and len(st.value.elts) == 4:
            parts = [self.expr(x, env) for x in st.value.elts]
            want = ("optstr", "optstr", "optstr", "optint")
            return "(Ok (" + ", ".join(self.coerce(v, t, w) for (v, t), w in zip(parts, want)) + "))"
        if isinstance(st, ast.Assign) and len(st.targets) == 1 and isinstance(st.targets[0], ast.Name) \
                and isinstance(st.value, ast.Constant) and st.value.value is None:
            e1 = dict(env)
            e1[st.targets[0].id] = "none"
            return self.stmts(rest, e1, rec)
        return super().stmts(body, env, rec)

    def translate(self, fd):
        if fd.args.vararg or fd.args.kwarg or fd.args.kwonlyargs or fd.args.posonlyargs or fd.args.defaults:
            raise Untranslatable("signature of " + fd.name)
        for d in fd.decorator_list:
            if ast.unparse(d).split("(")[0] not in ("lru_cache", "functools.lru_cache"):
                raise Untranslatable("decorator " + ast.unparse(d))
        env, params = {}, []
        for a in fd.args.args:
            if a.annotation is None or ast.unparse(a.annotation) != "str":
                raise Untranslatable("parameter " + a.arg)
            env[a.arg] = "str"
            params.append(a.arg)
        body = self.stmts(list(fd.body), env, {})
        ps = " ".join(f"({n} : str)" for n in params)
        return (f"Definition gen_{fd.name} {ps} : result (option str * option str * option str * option N) :=\n  {body}.",
                (["str"] * len(params), "tuple4"))


class HostFn(ParseFn):
    """_encode_host of yarl/_url.py.  On top of ParseFn:
    [x and (x[-1].isdigit() or "c" in x)] (index guarded by the truthiness of x);
    [try: ip = ip_address(t) except ValueError: pass else: ...] is a match on the oracle answer
    o_ip_parse (None: not an address; Some (version, compressed)), [ip.compressed] / [ip.version]
    its components;  [(m := NOT_REG_NAME.search(t))] as a condition is "t is not a reg-name"
    (Model.Host.regname_ok, whose tables are regenerated from the source), and a block that only
    prepares the message of the ValueError it raises on every path - assignments from m.group(),
    m.start(), slices, comparisons, f-strings - is that ValueError;  [t.lower()] is str.lower (the
    oracle py_lower);  _idna_encode is the model's idna_encode (two oracles)."""

    CALLEES = dict(ProcFn.CALLEES)
    CALLEES["_idna_encode"] = ("idna_encode O", [("host", "str", None)], "str", True)

    def expr(self, e, env):
        if isinstance(e, ast.Call) and isinstance(e.func, ast.Attribute) and e.func.attr == "lower" and not e.args and not e.keywords:
            a, ta = self.expr(e.func.value, env)
            if ta == "str":
                return f"(py_lower O {a})", "str"
        if isinstance(e, ast.Attribute) and isinstance(e.value, ast.Name) and env.get(e.value.id) == "ipaddr":
            if e.attr == "compressed":
                return f"(snd {e.value.id})", "str"
        return super().expr(e, env)

    def cond_bool(self, test, env):
        # x and (x[-1].isdigit() or "c" in x)
        if isinstance(test, ast.BoolOp) and isinstance(test.op, ast.And) and len(test.values) == 2 and isinstance(test.values[0], ast.Name) \
                and env.get(test.values[0].id) == "str" and isinstance(test.values[1], ast.BoolOp) and isinstance(test.values[1].op, ast.Or):
            x = test.values[0].id
            parts = []
            for v in test.values[1].values:
                if ast.unparse(v) == f"{x}[-1].isdigit()":
                    parts.append("py_isdigit l0")
                else:
                    parts.append(self.cond_bool(v, env))
            return f"(match last_opt {x} with Some l0 => {' || '.join(parts)} | None => false end)"
        # ip.version == 6
        if isinstance(test, ast.Compare) and len(test.ops) == 1 and isinstance(test.ops[0], ast.Eq) and isinstance(test.left, ast.Attribute) \
                and isinstance(test.left.value, ast.Name) and env.get(test.left.value.id) == "ipaddr" and test.left.attr == "version" \
                and isinstance(test.comparators[0], ast.Constant) and isinstance(test.comparators[0].value, int):
            return f"(fst {test.left.value.id} =? {test.comparators[0].value})"
        # validate and (m := NOT_REG_NAME.search(t))
        if isinstance(test, ast.NamedExpr) and isinstance(test.value, ast.Call) and ast.unparse(test.value.func) == "NOT_REG_NAME.search" \
                and len(test.value.args) == 1:
            a, ta = self.expr(test.value.args[0], env)
            if ta == "str":
                return f"(negb (regname_ok {a}))"
        return super().cond_bool(test, env)

    def message_only(self, stmts):
        """a block that raises ValueError on every path and otherwise only prepares its message"""
        ok_nodes = (ast.Name, ast.Constant, ast.JoinedStr, ast.FormattedValue, ast.Tuple, ast.Compare, ast.BoolOp, ast.Subscript,
                    ast.Slice, ast.Load, ast.Store, ast.And, ast.Or, ast.Eq, ast.In, ast.Call, ast.Attribute, ast.expr_context)

        def expr_ok(e):
            for n in ast.walk(e):
                if isinstance(n, ast.Call):
                    if not (isinstance(n.func, ast.Attribute) and n.func.attr in ("group", "start") and not n.args and not n.keywords):
                        if not (isinstance(n.func, ast.Name) and n.func.id == "ValueError"):
                            return False
                elif isinstance(n, ast.Subscript):
                    if not isinstance(n.slice, ast.Slice):
                        return False               # an index could raise IndexError
                elif not isinstance(n, ok_nodes):
                    return False
            return True

        def block(ss):
            if not ss:
                return False
            for st in ss[:-1]:
                if isinstance(st, ast.Assign):
                    if not expr_ok(st.value):
                        return False
                elif isinstance(st, ast.If):
                    if not expr_ok(st.test):
                        return False
                    for sub in (st.body, st.orelse):
                        if sub and not all(isinstance(x, ast.Assign) and expr_ok(x.value) for x in sub):
                            return False
                else:
                    return False
            last = ss[-1]
            return isinstance(last, ast.Raise) and isinstance(last.exc, ast.Call) and ast.unparse(last.exc.func) == "ValueError" \
                and expr_ok(last.exc) and (last.cause is None or (isinstance(last.cause, ast.Constant) and last.cause.value is None))
        return block(list(stmts))

    def stmts(self, body, env, rec):
        if not body:
            raise Untranslatable("a path falls off the end of the function")
        st, rest = body[0], body[1:]
        if isinstance(st, ast.Expr) and isinstance(st.value, ast.Constant):
            return self.stmts(rest, env, rec)
        # if cond: <message-only block ending in raise ValueError>
        if isinstance(st, ast.If) and not st.orelse and self.message_only(st.body):
            c = self.cond_bool(st.test, env)
            return f"(if {c} then (Err ValueError) else {self.stmts(rest, env, rec)})"
        # try: ip = ip_address(t) / except ValueError: pass / else: body
        if isinstance(st, ast.Try) and len(st.body) == 1 and isinstance(st.body[0], ast.Assign) and len(st.handlers) == 1 \
                and ast.unparse(st.handlers[0].type) == "ValueError" and len(st.handlers[0].body) == 1 \
                and isinstance(st.handlers[0].body[0], ast.Pass) and not st.finalbody and st.orelse \
                and isinstance(st.body[0].value, ast.Call) and ast.unparse(st.body[0].value.func) == "ip_address" \
                and len(st.body[0].value.args) == 1 and isinstance(st.body[0].targets[0], ast.Name):
            a, ta = self.expr(st.body[0].value.args[0], env)
            if ta != "str":
                raise Untranslatable("ip_address of " + ta)
            ip = st.body[0].targets[0].id
            e1 = dict(env)
            e1[ip] = "ipaddr"
            return (f"(match o_ip_parse O {a} with None => {self.stmts(rest, env, rec)} "
                    f"| Some {ip} => {self.stmts(list(st.orelse) + rest, e1, rec)} end)")
        if isinstance(st, ast.Return) and st.value is not None and not isinstance(st.value, ast.Tuple):
            if isinstance(st.value, ast.IfExp):
                c = self.cond_bool(st.value.test, env)
                a, ta = self.expr(st.value.body, env)
                b, tb = self.expr(st.value.orelse, env)
                if ta == tb == "str":
                    return f"(Ok (if {c} then {a} else {b}))"
            v, tv = self.expr(st.value, env)
            if tv != "str":
                raise Untranslatable("return of type " + tv)
            return f"(Ok {v})"
        if isinstance(st, ast.If) and not st.orelse:
            # a block that may return: the rest is the continuation of the fall-through
            c = self.cond_bool(st.test, env)
            return f"(if {c} then {self.stmts(list(st.body) + rest, env, rec)} else {self.stmts(rest, env, rec)})"
        return super().stmts(body, env, rec)

    def translate(self, fd):
        if fd.args.vararg or fd.args.kwarg or fd.args.kwonlyargs or fd.args.posonlyargs or fd.args.defaults:
            raise Untranslatable("signature of " + fd.name)
        for d in fd.decorator_list:
            if ast.unparse(d).split("(")[0] not in ("lru_cache", "functools.lru_cache"):
                raise Untranslatable("decorator " + ast.unparse(d))
        env, ps = {}, []
        for a in fd.args.args:
            t = {"str": "str", "bool": "bool"}.get(ast.unparse(a.annotation))
            if t is None:
                raise Untranslatable("parameter " + a.arg)
            env[a.arg] = t
            ps.append(f"({a.arg} : {t})")
        body = self.stmts(list(fd.body), env, {})
        return f"Definition gen_{cn(fd.name)} {' '.join(ps)} : result str :=\n  {body}.", ([], "rstr")


class DispatchFn:
    """Functions that dispatch on the dynamic type of one argument (yarl/_query.py: query_var,
    get_str_query).  The argument is a value of one of the model's sum types (Model/Query.v: qvar, qarg -
    what the harness's encoding of a Python value means); the body must be a chain of [if TEST: ...]
    statements ending in [return EXPR] / [raise ValueError|TypeError(message)], read as a decision tree
    (the rest of the function is the continuation of every branch that does not return).  TESTs are
    and/or/not combinations of the ATOMS of the table below - each a type test on the dispatch variable,
    read as the predicate on the sum type (Model/GenTypes.v) - and EXPRs come from the table RETURNS.
    [type(x) is T] (exact type, where the model's constructor also stands for the subclasses) is read as
    [exact_T && is_T x] with exact_T a PARAMETER of the generated function: the equality theorem is
    for every value of it, so the exact-type branch and the general one must both do what the model says.
    [cls = type(v)], [if TYPE_CHECKING: assert ...], bare annotations, [msg = "literal"] and - for
    get_str_query - the argument-count prelude (exactly the pinned statement: kwargs, or one
    positional argument; the model's single argument stands for it) are skipped.  Order of the tests,
    the branch each value takes, the exception types and the callees are all taken from the source."""

    SPECS = {
        "query_var": dict(
            sig="(v : qvar) : result str", var="v", alias="cls = type(v)", prelude=None,
            atoms={"cls is int": "(qv_is_int v)", "issubclass(cls, str)": "(qv_is_str v)", "cls is float": "(qv_is_float v)",
                   "issubclass(cls, float)": "(qv_is_float v)", "math.isinf(v)": "(qv_is_inf v)", "math.isnan(v)": "(qv_is_nan v)",
                   "cls is not bool": "(negb (qv_is_bool v))",
                   # isinstance of the CLASS object against SupportsInt: no class of the model's universe has __int__ as a class
                   "isinstance(cls, SupportsInt)": "false"},
            returns={"str(v)": "(Ok (qv_text v))", "v": "(Ok (qv_text v))", "str(float(v))": "(Ok (qv_text v))", "str(int(v))": "(Ok (qv_text v))"}),
        "update_query": dict(
            sig="(self : url) (q : qarg) : result url", var="in_query", alias=None,
            prelude="if kwargs:\n    if args:\n        msg = 'Either kwargs or single query parameter must be present'\n        raise ValueError(msg)\n"
                    "    in_query = kwargs\nelif len(args) == 1:\n    in_query = args[0]\nelse:\n    raise ValueError('Either kwargs or single query parameter must be present')",
            atoms={"in_query is None": "(qa_is_none q)", "in_query": "(qarg_truthy q)", "isinstance(in_query, Mapping)": "(qa_is_map q)",
                   "isinstance(in_query, str)": "(qa_is_str q)", "isinstance(in_query, (bytes, bytearray, memoryview))": "(qa_is_bytes q)",
                   "isinstance(in_query, Sequence)": "(qa_is_seq q || qa_is_str q || qa_is_bytes q)"},
            returns={}, method=True,
            # MultiDict(self._parsed_query) is the list of decoded (key, value) pairs; X.update(...) is Model/Query.md_update
            updates={"in_query": "(qa_items q)", "parse_qsl(in_query, keep_blank_values=True)": "(map qv_of_str (parse_qsl (qa_text q)))"},
            serial={"get_str_query_from_sequence_iterable": "str_query_from_seq_items (Q B QUERY_PART_QUOTER)",
                    "get_str_query_from_iterable": "str_query_from_items (Q B QUERY_PART_QUOTER)"}),
        "get_str_query": dict(
            sig="(exact_dict exact_str : bool) (q : qarg) : result (option str)", var="query", alias=None,
            prelude="if kwargs:\n    if args:\n        msg = 'Either kwargs or single query parameter must be present'\n        raise ValueError(msg)\n"
                    "    query = kwargs\nelif len(args) == 1:\n    query = args[0]\nelse:\n    raise ValueError('Either kwargs or single query parameter must be present')",
            atoms={"query is None": "(qa_is_none q)", "query": "(qarg_truthy q)", "type(query) is dict": "(exact_dict && qa_is_map q)",
                   "type(query) is str": "(exact_str && qa_is_str q)", "isinstance(query, str)": "(qa_is_str q)",
                   "isinstance(query, Mapping)": "(qa_is_map q)", "isinstance(query, (bytes, bytearray, memoryview))": "(qa_is_bytes q)",
                   "isinstance(query, Sequence)": "(qa_is_seq q || qa_is_str q || qa_is_bytes q)"},
            returns={"None": "(Ok None)", "''": "(Ok (Some []))",
                     "get_str_query_from_sequence_iterable(query.items())":
                         "(match str_query_from_seq_items (Q B QUERY_PART_QUOTER) (qa_items q) with Err e => Err e | Ok s0 => Ok (Some s0) end)",
                     "QUERY_QUOTER(query)": "(Ok (Some (Q B QUERY_QUOTER (qa_text q))))",
                     "get_str_query_from_iterable(query)":
                         "(match str_query_from_items (Q B QUERY_PART_QUOTER) (qa_items q) with Err e => Err e | Ok s0 => Ok (Some s0) end)"}),
    }

    def test(self, t, spec):
        if isinstance(t, ast.BoolOp):
            parts = [self.test(v, spec) for v in t.values]
            return "(" + (" && " if isinstance(t.op, ast.And) else " || ").join(parts) + ")"
        if isinstance(t, ast.UnaryOp) and isinstance(t.op, ast.Not):
            return f"(negb {self.test(t.operand, spec)})"
        txt = ast.unparse(t)
        if txt in spec["atoms"]:
            if "cls" in txt and not self.has_alias:
                raise Untranslatable("cls used before cls = type(...)")
            return spec["atoms"][txt]
        raise Untranslatable("test " + txt)

    def message_only(self, e):
        for n in ast.walk(e):
            if isinstance(n, ast.Call) and not (isinstance(n.func, ast.Attribute) and n.func.attr == "format" and isinstance(n.func.value, ast.Constant)):
                return False
            if isinstance(n, (ast.NamedExpr, ast.Await, ast.Yield, ast.YieldFrom, ast.Lambda)):
                return False
        return True

    def stmts(self, body, spec):
        if not body:
            raise Untranslatable("a path falls off the end of the function")
        st, rest = body[0], body[1:]
        if isinstance(st, ast.Expr) and isinstance(st.value, ast.Constant) and isinstance(st.value.value, str):
            return self.stmts(rest, spec)
        if isinstance(st, ast.AnnAssign) and st.value is None:
            return self.stmts(rest, spec)
        if isinstance(st, ast.Assign) and spec["alias"] and ast.unparse(st) == spec["alias"]:
            self.has_alias = True
            return self.stmts(rest, spec)
        if isinstance(st, ast.Assign) and len(st.targets) == 1 and isinstance(st.targets[0], ast.Name) and st.targets[0].id == "msg" \
                and isinstance(st.value, ast.Constant) and isinstance(st.value.value, str):
            return self.stmts(rest, spec)
        if isinstance(st, ast.If) and spec["prelude"] and not self.bound and ast.unparse(st) == spec["prelude"]:
            self.bound = True
            return self.stmts(rest, spec)
        if isinstance(st, ast.If) and ast.unparse(st.test) == "TYPE_CHECKING" and not st.orelse and all(isinstance(x, ast.Assert) for x in st.body):
            return self.stmts(rest, spec)
        if not self.bound:
            raise Untranslatable("statement before the dispatch variable is bound: " + ast.unparse(st)[:60])
        if isinstance(st, ast.If):
            c = self.test(st.test, spec)
            saved = (set(self.mds), self.has_query)
            a = self.stmts(list(st.body) + rest, spec)
            self.mds, self.has_query = set(saved[0]), saved[1]
            b = self.stmts(list(st.orelse) + rest, spec)
            self.mds, self.has_query = saved
            return f"(if {c} then {a} else {b})"
        if spec.get("method"):
            # X: MultiDict[...] = MultiDict(self._parsed_query)
            if isinstance(st, ast.AnnAssign) and isinstance(st.target, ast.Name) and st.value is not None \
                    and ast.unparse(st.value) == "MultiDict(self._parsed_query)" and ast.unparse(st.annotation).startswith("MultiDict["):
                x = st.target.id
                if x in ("self", "q", "query") or x in self.mds:
                    raise Untranslatable("name " + x)
                self.mds.add(x)
                return f"(let {x} : list (str * qval) := map qv_of_str (query_pairs self) in {self.stmts(rest, spec)})"
            # X.update(<the argument>)
            if isinstance(st, ast.Expr) and isinstance(st.value, ast.Call) and isinstance(st.value.func, ast.Attribute) and st.value.func.attr == "update" \
                    and isinstance(st.value.func.value, ast.Name) and st.value.func.value.id in self.mds and len(st.value.args) == 1 \
                    and not st.value.keywords and ast.unparse(st.value.args[0]) in spec["updates"]:
                x = st.value.func.value.id
                return f"(let {x} : list (str * qval) := md_update {x} {spec['updates'][ast.unparse(st.value.args[0])]} in {self.stmts(rest, spec)})"
            # query = '' / self._query / serialiser(X.items())
            if isinstance(st, ast.Assign) and len(st.targets) == 1 and isinstance(st.targets[0], ast.Name) and st.targets[0].id == "query":
                v = st.value
                self.has_query = True
                if isinstance(v, ast.Constant) and v.value == "":
                    return f"(let query : str := [] in {self.stmts(rest, spec)})"
                if ast.unparse(v) == "self._query":
                    return f"(let query : str := u_query self in {self.stmts(rest, spec)})"
                if isinstance(v, ast.Call) and isinstance(v.func, ast.Name) and v.func.id in spec["serial"] and len(v.args) == 1 and not v.keywords \
                        and isinstance(v.args[0], ast.Call) and isinstance(v.args[0].func, ast.Attribute) and v.args[0].func.attr == "items" \
                        and not v.args[0].args and isinstance(v.args[0].func.value, ast.Name) and v.args[0].func.value.id in self.mds:
                    return (f"(match {spec['serial'][v.func.id]} {v.args[0].func.value.id} with Err e => Err e | Ok query => "
                            f"{self.stmts(rest, spec)} end)")
                raise Untranslatable("statement " + ast.unparse(st)[:80])
            if isinstance(st, ast.Return) and self.has_query \
                    and ast.unparse(st.value) == "from_parts_uncached(self._scheme, self._netloc, self._path, query, self._fragment)":
                return "(Ok (from_parts (u_scheme self) (u_netloc self) (u_path self) query (u_fragment self)))"
        if isinstance(st, ast.Return) and st.value is not None:
            txt = ast.unparse(st.value)
            if txt in spec["returns"]:
                return spec["returns"][txt]
            raise Untranslatable("return " + txt)
        if isinstance(st, ast.Raise) and isinstance(st.exc, ast.Call) and isinstance(st.exc.func, ast.Name) \
                and st.exc.func.id in ("ValueError", "TypeError") and st.cause is None and not st.exc.keywords and all(self.message_only(x) for x in st.exc.args):
            return f"(Err {st.exc.func.id})"
        raise Untranslatable("statement " + ast.unparse(st)[:80])

    def translate(self, fd):
        spec = self.SPECS[fd.name]
        if fd.decorator_list:
            raise Untranslatable("decorator " + ast.unparse(fd.decorator_list[0]))
        self.has_alias = False
        self.bound = spec["prelude"] is None
        self.mds, self.has_query = set(), False
        a = fd.args
        if spec["prelude"] is None:
            if a.vararg or a.kwarg or a.kwonlyargs or a.posonlyargs or a.defaults or [x.arg for x in a.args] != [spec["var"]]:
                raise Untranslatable("signature of " + fd.name)
        elif not (a.vararg and a.kwarg and (a.vararg.arg, a.kwarg.arg) == ("args", "kwargs") and not a.kwonlyargs and not a.posonlyargs
                  and [x.arg for x in a.args] == (["self"] if spec.get("method") else [])):
            raise Untranslatable("signature of " + fd.name)
        body = self.stmts(list(fd.body), spec)
        return f"Definition gen_{cn(fd.name)} {spec['sig']} :=\n  {body}.", ([], "dispatch")



class CompFn:
    """get_str_query_from_iterable / get_str_query_from_sequence_iterable of yarl/_query.py: one list
    comprehension over (key, value) pairs joined with "&".  Read structurally: [quoter = QUERY_PART_QUOTER];
    [pairs = [f"{quoter(k)}={quoter(v if type(v) is str else query_var(v))}" for ...]] - the f-string's
    pieces in order, each field a [quoter(...)] of the key or of the value's text, the text being the
    value itself when its exact type is str (exact_str && ..., see DispatchFn) and query_var(v) otherwise
    (a bind: query_var may raise, and the first failure in iteration order is the function's);
    generators [for k, v in items] (a list/tuple value is then a value of an unsupported type:
    GenTypes.qval_scalar) or [for k, val in items for v in (val if type(val) is not str and
    isinstance(val, (list, tuple)) else (val,))] (GenTypes.qval_list); [return "&".join(pairs)]."""

    INNER = "val if type(val) is not str and isinstance(val, (list, tuple)) else (val,)"

    def field(self, e):
        if not (isinstance(e, ast.Call) and isinstance(e.func, ast.Name) and e.func.id == "quoter" and len(e.args) == 1 and not e.keywords):
            raise Untranslatable("f-string field " + ast.unparse(e))
        a = e.args[0]
        if isinstance(a, ast.Name) and a.id == "k":
            return None, "Q B QUERY_PART_QUOTER k"
        if isinstance(a, ast.IfExp) and ast.unparse(a.test) == "type(v) is str" and ast.unparse(a.body) == "v" and ast.unparse(a.orelse) == "query_var(v)":
            self.n += 1
            nm = f"s{self.n}"
            return (nm, "(if (exact_str && qv_is_str v) then Ok (qv_text v) else gen_query_var v)"), f"Q B QUERY_PART_QUOTER {nm}"
        raise Untranslatable("f-string field " + ast.unparse(e))

    def translate(self, fd):
        if fd.decorator_list or fd.args.vararg or fd.args.kwarg or fd.args.kwonlyargs or fd.args.posonlyargs or fd.args.defaults \
                or [a.arg for a in fd.args.args] != ["items"]:
            raise Untranslatable("signature of " + fd.name)
        body = list(fd.body)
        if body and isinstance(body[0], ast.Expr) and isinstance(body[0].value, ast.Constant) and isinstance(body[0].value.value, str):
            body = body[1:]
        if len(body) != 3 or ast.unparse(body[0]) != "quoter = QUERY_PART_QUOTER" or ast.unparse(body[2]) != "return '&'.join(pairs)":
            raise Untranslatable("shape of " + fd.name)
        st = body[1]
        if not (isinstance(st, ast.Assign) and len(st.targets) == 1 and ast.unparse(st.targets[0]) == "pairs" and isinstance(st.value, ast.ListComp)
                and isinstance(st.value.elt, ast.JoinedStr)):
            raise Untranslatable("statement " + ast.unparse(st)[:80])
        self.n = 0
        binds, parts = [], []
        for v in st.value.elt.values:
            if isinstance(v, ast.Constant) and isinstance(v.value, str):
                parts.append(lit(v.value))
            elif isinstance(v, ast.FormattedValue) and v.conversion == -1 and v.format_spec is None:
                b, t = self.field(v.value)
                if b:
                    binds.append(b)
                parts.append(t)
            else:
                raise Untranslatable("f-string " + ast.unparse(st.value.elt))
        pair = "Ok (" + " ++ ".join(parts) + ")"
        for nm, src in reversed(binds):
            pair = f"(match {src} with Err e => Err e | Ok {nm} => {pair} end)"
        gens = st.value.generators
        if any(g.ifs or g.is_async for g in gens):
            raise Untranslatable("generator condition")
        if len(gens) == 1 and ast.unparse(gens[0].target) == "(k, v)" and ast.unparse(gens[0].iter) == "items":
            body = (f"(match mapM (fun kv : str * qval => let '(k, v0) := kv in let v := qval_scalar v0 in {pair}) items with "
                    f"Err e => Err e | Ok ps => Ok (join [38] ps) end)")
        elif len(gens) == 2 and ast.unparse(gens[0].target) == "(k, val)" and ast.unparse(gens[0].iter) == "items" \
                and ast.unparse(gens[1].target) == "v" and ast.unparse(gens[1].iter) == self.INNER:
            body = (f"(match mapM (fun kv : str * qval => let '(k, val) := kv in mapM (fun v : qvar => {pair}) (qval_list val)) items with "
                    f"Err e => Err e | Ok ps => Ok (join [38] (concat ps)) end)")
        else:
            raise Untranslatable("generators of " + fd.name)
        return f"Definition gen_{cn(fd.name)} (exact_str : bool) (items : list (str * qval)) : result str :=\n  {body}.", ([], "comp")



class PinnedFn:
    """Functions whose whole body is calls into an external library (idna, the "idna" codec): there is
    nothing to translate except the calls themselves, which the model represents by oracles.  The
    source text of the function (comments and docstring aside) must be EXACTLY the pinned one; then the
    fixed Gallina reading below is emitted - try the first library call, on UnicodeError the second,
    whose own UnicodeError (a ValueError) is the function's failure.  Any edit fails closed."""

    PINNED = {
        "_idna_encode": (
            "@lru_cache(_DEFAULT_IDNA_SIZE)\ndef _idna_encode(host: str) -> str:\n    try:\n        return idna.encode(host, uts46=True).decode('ascii')\n"
            "    except UnicodeError:\n        return host.encode('idna').decode('ascii').lower()",
            "Definition gen_idna_encode (host : str) : result str :=\n"
            "  match o_idna2008_enc O host with\n  | Some r => Ok r\n"
            "  | None => match o_idna2003_enc O host with Some r => Ok (lower_ascii r) | None => Err ValueError end\n  end."),
        "human_quote": (
            "def human_quote(s: Union[str, None], unsafe: str) -> Union[str, None]:\n    if not s:\n        return s\n"
            "    for c in '%' + unsafe:\n        if c in s:\n            s = s.replace(c, f'%{ord(c):02X}')\n"
            "    if s.isprintable():\n        return s\n    return ''.join((c if c.isprintable() else quote(c) for c in s))",
            "Definition gen_human_quote (s : str) (unsafe : str) : result str :=\n"
            "  match s with\n  | [] => Ok []\n  | _ =>\n"
            "      let s := fold_left (fun acc c => if mem c acc then replace_cp c (pct c) acc else acc) (37 :: unsafe) s in\n"
            "      if forallb py_isprintable s then Ok s\n      else\n"
            "        do ps <- mapM (fun c => if py_isprintable c then Ok [c]\n"
            "                                else if is_sur c then Err ValueError\n"
            "                                else Ok (flat_map pct (utf8 c))) s;\n        Ok (concat ps)\n  end."),
        "_idna_decode": (
            "@lru_cache(_DEFAULT_IDNA_SIZE)\ndef _idna_decode(raw: str) -> str:\n    try:\n        return idna.decode(raw.encode('ascii'))\n"
            "    except UnicodeError:\n        return raw.encode('ascii').decode('idna')",
            "Definition gen_idna_decode (raw : str) : result str :=\n"
            "  if isascii raw then\n    match o_idna2008_dec O raw with\n    | Some r => Ok r\n"
            "    | None => match o_idna2003_dec O raw with Some r => Ok r | None => Err ValueError end\n    end\n"
            "  else Err ValueError."),
    }

    def translate(self, fd):
        import copy
        fd = copy.deepcopy(fd)
        if fd.body and isinstance(fd.body[0], ast.Expr) and isinstance(fd.body[0].value, ast.Constant) and isinstance(fd.body[0].value.value, str):
            fd.body = fd.body[1:]
        want, text = self.PINNED[fd.name]
        got = ast.unparse(fd)
        if got != want:
            raise Untranslatable("the source of " + fd.name + " is not the pinned text")
        return text, ([], "rstr")


SOURCES = [
    # (source file, output module, header imports, tables usable in "x in TABLE", functions with stub signatures)
    ("_path.py", "PathGen", "From Yarl Require Export Base.PyStr.", (),
     [("normalize_path_segments", "(segments : list str) : list str", "[]"),
      ("normalize_path", "(path : str) : str", "[]")]),
    ("_parse.py", "ParseGen", "From Yarl Require Export Base.PyStr Generated.Tables.", ("USES_AUTHORITY",),
     [("unsplit_result", "(scheme netloc url query fragment : str) : str", "[]"),
      ("make_netloc", "(q : str -> str) (user password host : option str) (port : option N) (encode : bool) : str", "[]", {"QUOTER": "q"})]),
    ("_parse.py", "NetlocGen", "From Yarl Require Export Base.PyStr Generated.Tables Model.Parse Model.Host Model.Url.", (),
     [("split_netloc", "(netloc : str) : result (option str * option str * option str * option N)", "Err OtherError", "parse")]),
    ("_quoters.py", "QuotersGen", "From Yarl Require Export Base.PyStr Base.Utf8 Generated.Tables Model.Parse Model.Host Model.Url.", (),
     [("human_quote", "(s unsafe : str) : result str", "Err OtherError", "pinned")]),
    ("_query.py", "QueryGen",
     "From Yarl Require Export Base.PyStr Generated.Tables Model.Parse Model.Host Model.Quoters Model.Url Model.GenTypes Model.GenQTypes.\nSection G.\nVariable B : backend.", (),
     [("query_var", "(v : qvar) : result str", "Err OtherError", "dispatch"),
      ("get_str_query_from_sequence_iterable", "(exact_str : bool) (items : list (str * qval)) : result str", "Err OtherError", "comp"),
      ("get_str_query_from_iterable", "(exact_str : bool) (items : list (str * qval)) : result str", "Err OtherError", "comp"),
      ("get_str_query", "(exact_dict exact_str : bool) (q : qarg) : result (option str)", "Err OtherError", "dispatch")]),
    ("_url.py", "HostGen",
     "From Yarl Require Export Base.PyStr Generated.Tables Model.Parse Model.Host.\nSection G.\nVariable O : oracles.", (),
     [("_idna_encode", "(host : str) : result str", "Err OtherError", "pinned"),
      ("_idna_decode", "(raw : str) : result str", "Err OtherError", "pinned"),
      ("_encode_host", "(host : str) (validate_host : bool) : result str", "Err OtherError", "host")]),
    ("_url.py", "UrlGen",
     "From Coq Require Import ZArith.\nFrom Yarl Require Export Base.PyStr Generated.Tables Model.Parse Model.Host Model.Quoters Model.Path Model.Url Model.GenTypes Model.GenQTypes.\n"
     "Section G.\nVariable O : oracles.\nVariable B : backend.", (),
     [("encode_url", "(url_str : str) : result gen_url", "Err OtherError", "proc"),
      ("pre_encoded_url", "(url_str : str) : result gen_url", "Err OtherError", "proc"),
      ("build_pre_encoded_url", "(scheme authority : str) (user password : option str) (host : str) (port : option N) (path query_string fragment : str) : result gen_url", "Err OtherError", "proc"),
      ("from_parts_uncached", "(scheme netloc path query fragment : str) : result gen_url", "Err OtherError", "proc"),
      ("URL.build", "(a : build_args) : result gen_url", "Err OtherError", "build"),
      ("URL.__str__", "(self : url) : result str", "Err OtherError", "meth", "rstr"),
      ("URL.__eq__", "(self other : url) : bool", "false", "meth", "bool"),
      ("URL._cmp_val", "(self : url) : list str", "[]", "meth", "strs"),
      ("URL.__le__", "(self other : url) : bool", "false", "meth", "bool"),
      ("URL.__lt__", "(self other : url) : bool", "false", "meth", "bool"),
      ("URL.__ge__", "(self other : url) : bool", "false", "meth", "bool"),
      ("URL.__gt__", "(self other : url) : bool", "false", "meth", "bool"),
      ("URL._cache_netloc", "(self : url) : result memo", "Err OtherError", "meth", "rmemo"),
      ("URL.raw_user", "(self : url) : result (option str)", "Err OtherError", "meth", "roptstr"),
      ("URL.raw_password", "(self : url) : result (option str)", "Err OtherError", "meth", "roptstr"),
      ("URL.raw_host", "(self : url) : result (option str)", "Err OtherError", "meth", "roptstr"),
      ("URL.explicit_port", "(self : url) : result (option N)", "Err OtherError", "meth", "roptint"),
      ("URL.user", "(self : url) : result (option str)", "Err OtherError", "meth", "roptstr"),
      ("URL.password", "(self : url) : result (option str)", "Err OtherError", "meth", "roptstr"),
      ("URL.host_subcomponent", "(self : url) : result (option str)", "Err OtherError", "meth", "roptstr"),
      ("URL.host_port_subcomponent", "(self : url) : result (option str)", "Err OtherError", "meth", "roptstr"),
      ("URL.port", "(self : url) : result (option N)", "Err OtherError", "meth", "roptint"),
      ("URL.is_default_port", "(self : url) : result bool", "Err OtherError", "meth", "rbool"),
      ("URL.raw_path", "(self : url) : str", "[]", "meth", "str"),
      ("URL.path", "(self : url) : str", "[]", "meth", "str"),
      ("URL.path_safe", "(self : url) : str", "[]", "meth", "str"),
      ("URL.absolute", "(self : url) : bool", "false", "meth", "bool"),
      ("URL.with_scheme", "(self : url) (scheme : str) : result url", "Err OtherError", "mod", "rurl"),
      ("URL.with_user", "(self : url) (user : option str) : result url", "Err OtherError", "mod", "rurl"),
      ("URL.with_password", "(self : url) (password : option str) : result url", "Err OtherError", "mod", "rurl"),
      ("URL.with_host", "(self : url) (host : str) : result url", "Err OtherError", "mod", "rurl"),
      ("URL.with_fragment", "(self : url) (fragment : option str) : url", "self", "mod", "url"),
      ("URL.with_port", "(self : url) (port : portarg) : result url", "Err OtherError", "mod", "rurl", "portarg"),
      ("URL.with_path", "(self : url) (path : str) (encoded keep_query keep_fragment : bool) : url", "self", "mod", "url"),
      ("URL._origin", "(self : url) : result url", "Err OtherError", "mod", "rurl"),
      ("URL.relative", "(self : url) : result url", "Err OtherError", "mod", "rurl"),
      ("URL.parent", "(self : url) : result url", "Err OtherError", "mod", "rurl"),
      ("URL.join", "(self url : url) : result url", "Err OtherError", "mod", "rurl"),
      ("URL.raw_parts", "(self : url) : list str", "[]", "mod", "strs"),
      ("URL.raw_name", "(self : url) : result str", "Err OtherError", "mod", "rstr"),
      ("URL._with_raw_name", "(self : url) (name : str) (keep_query keep_fragment : bool) : result url", "Err OtherError", "mod", "rurl"),
      ("URL.with_name", "(self : url) (name : str) (keep_query keep_fragment : bool) : result url", "Err OtherError", "mod", "rurl"),
      ("URL._make_child", "(self : url) (paths : list str) (encoded : bool) : result url", "Err OtherError", "mod", "rurl"),
      ("URL.host", "(self : url) : result (option str)", "Err OtherError", "mod", "roptstr"),
      ("URL.authority", "(self : url) : result str", "Err OtherError", "mod", "rstr"),
      ("URL.raw_query_string", "(self : url) : str", "[]", "mod", "str"),
      ("URL.query_string", "(self : url) : str", "[]", "mod", "str"),
      ("URL.raw_fragment", "(self : url) : str", "[]", "mod", "str"),
      ("URL.fragment", "(self : url) : str", "[]", "mod", "str"),
      ("URL.raw_path_qs", "(self : url) : str", "[]", "mod", "str"),
      ("URL.path_qs", "(self : url) : str", "[]", "mod", "str"),
      ("URL.parts", "(self : url) : list str", "[]", "mod", "strs"),
      ("URL.raw_suffix", "(self : url) : result str", "Err OtherError", "mod", "rstr"),
      ("URL.with_suffix", "(self : url) (suffix : str) (keep_query keep_fragment : bool) : result url", "Err OtherError", "mod", "rurl"),
      ("URL.name", "(self : url) : result str", "Err OtherError", "mod", "rstr"),
      ("URL.suffix", "(self : url) : result str", "Err OtherError", "mod", "rstr"),
      ("URL.raw_suffixes", "(self : url) : result (list str)", "Err OtherError", "mod", "rstrs"),
      ("URL.suffixes", "(self : url) : result (list str)", "Err OtherError", "mod", "rstrs"),
      ("URL.human_repr", "(self : url) : result str", "Err OtherError", "mod", "rstr"),
      ("URL.is_absolute", "(self : url) : bool", "false", "mod", "bool"),
      ("URL.scheme", "(self : url) : str", "[]", "mod", "str"),
      ("URL.raw_authority", "(self : url) : str", "[]", "mod", "str"),
      ("URL.origin", "(self : url) : result url", "Err OtherError", "mod", "rurl"),
      ("URL.with_query", "(self : url) (q : qarg) : result url", "Err OtherError", "mod", "rurl"),
      ("URL.extend_query", "(self : url) (q : qarg) : result url", "Err OtherError", "mod", "rurl"),
      ("URL.update_query", "(self : url) (q : qarg) : result url", "Err OtherError", "dispatch"),
      ("URL.without_query_params", "(self : url) (query_params : list str) : result url", "Err OtherError", "mod", "rurl"),
      ("URL.joinpath", "(self : url) (other : list str) (encoded : bool) : result url", "Err OtherError", "mod", "rurl"),
      ("URL.__truediv__", "(self : url) (name : str) : result url", "Err OtherError", "mod", "rurl")]),
]


def generate_one(repo, fname, header, tables, wanted):
    src = open(os.path.join(repo, "yarl", fname)).read()
    out = [f"(* GENERATED by harness/gen_model.py from yarl/{fname} of the working tree on every run. DO NOT EDIT. *)",
           header, "Open Scope N_scope.", ""]
    errors = []
    try:
        tree = ast.parse(src)
        fds = {n.name: n for n in tree.body if isinstance(n, ast.FunctionDef)}
        for c in tree.body:
            if isinstance(c, ast.ClassDef):
                for n in c.body:
                    if isinstance(n, ast.FunctionDef) and not any(ast.unparse(d) == "overload" for d in n.decorator_list):
                        fds[c.name + "." + n.name] = n          # typing stubs aside, the last definition is the method
    except SyntaxError as e:
        fds = {}
        errors.append("syntax error: " + str(e))
    known = {}
    methods = {}
    for name, sig, stub, *tree in wanted:
        try:
            if name not in fds:
                raise Untranslatable("function " + name + " not found")
            if tree and tree[0] == "build":
                text, ty = BuildFn().translate(fds[name])
            elif tree and tree[0] == "comp":
                text, ty = CompFn().translate(fds[name])
            elif tree and tree[0] == "dispatch":
                text, ty = DispatchFn().translate(fds[name])
            elif tree and tree[0] == "pinned":
                text, ty = PinnedFn().translate(fds[name])
            elif tree and tree[0] == "host":
                text, ty = HostFn().translate(fds[name])
            elif tree and tree[0] == "parse":
                text, ty = ParseFn().translate(fds[name])
            elif tree and tree[0] == "mod":
                m = ModFn(tree[1], methods)
                m.portarg = len(tree) > 2 and tree[2] == "portarg"
                text, ty = m.translate(fds[name])
                methods[name.split(".")[1]] = tree[1]
            elif tree and tree[0] == "meth":
                text, ty = MethFn(tree[1], methods).translate(fds[name])
                methods[name.split(".")[1]] = tree[1]
            elif tree and tree[0] == "proc":
                text, ty = ProcFn().translate(fds[name])
            elif tree:
                text, ty = TreeFn(tree[0]).translate(fds[name])
            else:
                text, ty = Fn(known, tables).translate(fds[name])
            known[name] = ty
            out.append(text)
        except Untranslatable as e:
            errors.append(name + ": " + str(e))
            out.append(f"(* TRANSLATION FAILED: {str(e).replace('*)', '* )')} *)")
            out.append(f"Definition gen_{cn(name.split('.')[-1])} {sig} := {stub}.")
        out.append("")
    if "Section G." in header:
        out.append("End G.")
    return "\n".join(out), errors


def generate_all(repo):
    """{module name: text}, [errors]"""
    texts, errors = {}, []
    for fname, mod, header, tables, wanted in SOURCES:
        t, e = generate_one(repo, fname, header, tables, wanted)
        texts[mod] = t
        errors += [mod + ": " + x for x in e]
    return texts, errors


def generate(repo):
    t, e = generate_one(repo, *[(x[0], x[2], x[3], x[4]) for x in SOURCES if x[1] == "PathGen"][0])
    return t, e


if __name__ == "__main__":
    texts, errs = generate_all(sys.argv[1] if len(sys.argv) > 1 else "/repo")
    for m, t in texts.items():
        sys.stdout.write(t + "\n")
    for e in errs:
        sys.stderr.write("ERROR " + e + "\n")
