#!/bin/sh
# Offline build of the framework: tables from /repo, Coq development, extracted model,
# overlay copy of the implementation (both quoting backends).
cd "$(dirname "$0")" || exit 1
exec /venv/bin/python - <<'PY'
import sys, os
sys.path.insert(0, os.path.join(os.getcwd(), "harness"))
import core
rep = {}
core.ensure_coq(rep)
ov, c_ok, log = core.build_overlay()
print("make rc", rep.get("make_rc"), "driver rc", rep.get("driver_rc"), "overlay", ov, "c backend", c_ok, "build_s", rep.get("build_s"))
if rep.get("make_rc") != 0:
    print(rep.get("make_log_tail"))
if rep.get("driver_rc") != 0:
    print(rep.get("driver_log"))
sys.exit(0 if rep.get("make_rc") == 0 and rep.get("driver_rc") == 0 else 1)
PY
